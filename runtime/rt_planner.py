"""Bounded stand-in for the planner contract (C01 P3/P3t, C02 P1/P2/P4/P5/P7,
C07 / C18 dependency snapshot): the REAL `ExecutionPlanner.create_plan_for`
over exhaustively enumerated small task graphs.

Scope
  quick    : forward DAGs (edges t_i -> t_j only for i < j; every DAG has such a
             numbering) with <= 4 tasks, root t0, x every listing order of every
             dependency list x per-task kind in {run_command, group, combine,
             run_experiment without / with recorded versions} x {default, again}.
             No restriction of the kind product was needed (~205k cases).
  thorough : the same for <= 4 tasks, plus all forward DAGs with exactly 5 tasks
             restricted to kinds {run_command, run_experiment without / with
             recorded versions} (group / combine add no new planner path beyond
             <= 4 and the full product would be 65M cases); in mode "again" the
             5-task graphs are run without recorded versions only (with --again
             a recorded version does not influence planning).

Oracle (independent, from DESIGN 5.1/5.2/5.7): runs(t) := again or t is not an
experiment with a recorded version; V := least set containing the root and
closed under deps of running tasks; executed = {t in V | runs(t)}; pruned =
V - executed.  When a task identifier has several operations (P1 violated)
"op(d)" in P3/P3t is read as "some operation of d" so that P3 failures are
missing orderings, not just a restatement of P1.
"""
import itertools
import shutil
import sys
import tempfile
import time

from runtime import graphs as G
from runtime.common import result

FUNCTION = "execution/planning/planner.py::ExecutionPlanner.create_plan_for"

P1 = "C02.planner.P1_each_task_lowered_once"
P2 = "C02.planner.P2_executed_set_is_needed_closure"
P5 = "C02.planner.P5_cached_and_executed_disjoint"
P4 = "C02.planner.P4_counts_and_initial_ops"
P7 = "C02.planner.P7_one_version_per_task"
P3 = "C01.planner.P3_direct_edges"
P3T = "C01.planner.P3t_transitive_lowered_paths"
P3C = "C01.planner.P3t_transitive_through_cached"
C07 = "C07.planner.deps_snapshot"
C18 = "C18.planner.combine_deps_snapshot"
NAMES = [P1, P2, P5, P4, P7, P3, P3T, P3C, C07, C18]

PROPS = {P1: ["C02", "C09"], P2: "C02", P5: "C02", P4: ["C02", "C09"], P7: ["C02", "C08"], P3: "C01",
         P3T: "C01", P3C: "C01", C07: "C07", C18: "C18"}

RULES = {
    P1: "distinct (graph, listing order, kinds, recorded flags, mode) tuples; non-trivial = "
        "some task of the needed closure is a dependency of >= 2 running tasks",
    P2: "distinct tuples; non-trivial = shared dependency in the closure, or a pruned task, "
        "or a defined task outside the closure",
    P5: "distinct tuples; non-trivial = at least one pruned (cached) task in the closure",
    P4: "distinct tuples; non-trivial = at least one edge between lowered tasks",
    P7: "distinct tuples; non-trivial = at least one run_experiment must run",
    P3: "distinct tuples; non-trivial = at least one direct dependency between lowered tasks",
    P3T: "distinct tuples; non-trivial = some lowered v is reachable from a lowered u by a "
         "path of >= 2 edges through lowered tasks only",
    P3C: "distinct tuples; non-trivial = some lowered v is reachable from a lowered u only "
         "through paths that pass a pruned task",
    C07: "distinct tuples; non-trivial = a run_command/run_experiment that must run has a "
         "run_experiment dependency (its directory depends on the version chosen)",
    C18: "distinct tuples; non-trivial = a combine that must run has a run_experiment dependency",
}

_ALPHA_FULL = "cgmeE"
_ALPHA_5 = "ceE"


def _blocks(tier):
    """[(graph_orders, option tuples)] -- the enumeration, identical in every
    process."""
    blocks = []
    for n in range(1, 5):
        gos = G.forward_dag_orders(n, n)
        blocks.append((gos, list(itertools.product(_ALPHA_FULL, repeat=n))))
    if tier == "thorough":
        gos = G.forward_dag_orders(5, 5)
        blocks.append((gos, list(itertools.product(_ALPHA_5, repeat=5))))
    return blocks


def _scope(tier):
    s = ("forward DAGs with <=4 tasks (root t0) x all dep listing orders x kinds "
         "{run_command,group,combine,run_experiment} x recorded-version flag of experiments "
         "x {default,again}")
    if tier == "thorough":
        s += ("; plus all forward DAGs with 5 tasks x orders x kinds {run_command,"
              "run_experiment} x recorded flag x {default,again} (again: without recorded versions)")
    return s


# --------------------------------------------------------------------------


class _Env:
    def __init__(self, root):
        import pathlib

        self.root = pathlib.Path(root)
        self.index_factory = G.IndexFactory(self.root)
        self.vi_factory = G.VersionIndexFactory()
        self.wd = G.Watchdog()
        self.idents = [G.ident(i) for i in range(6)]
        self.id_index = {str(self.idents[i]): i for i in range(6)}
        self.cond_abs = self.root / "COND"
        self._raw_cache = {}
        from conductor.task_types.base import TaskType
        from conductor.execution.planning.planner import ExecutionPlanner
        from conductor.execution.ops.run_task_executable import RunTaskExecutable
        from conductor.execution.ops.combine_outputs import CombineOutputs

        self.TaskType = TaskType
        self.ExecutionPlanner = ExecutionPlanner
        self.RunTaskExecutable = RunTaskExecutable
        self.CombineOutputs = CombineOutputs

    def raw(self, i, kind_code, dep_tuple):
        key = (i, kind_code, dep_tuple)
        r = self._raw_cache.get(key)
        if r is None:
            r = G.make_raw_task(G.KIND_NAMES[kind_code], G.task_name(i),
                                [":" + G.task_name(j) for j in dep_tuple], self.cond_abs)
            self._raw_cache[key] = r
        return dict(r)


def _caller_task(TaskType):
    """Identifier (str) of the task on whose behalf a version is generated: the
    nearest caller frame whose `self` is a task, else the planner's `lt`."""
    f = sys._getframe(2)
    depth = 0
    while f is not None and depth < 10:
        s = f.f_locals.get("self")
        if isinstance(s, TaskType):
            return str(s.identifier)
        lt = f.f_locals.get("lt")
        if lt is not None and isinstance(getattr(lt, "task", None), TaskType):
            return str(lt.task.identifier)
        f = f.f_back
        depth += 1
    return None


def _graph_info(deps):
    n = len(deps)
    return {"n": n, "tc": G.transitive_closure(deps), "edges": G.n_edges(deps)}


def _needed(deps, opts, again):
    def runs(i):
        return again or opts[i] != "E"

    V = set()
    work = [0]
    while work:
        i = work.pop()
        if i in V:
            continue
        V.add(i)
        if runs(i):
            work.extend(deps[i])
    executed = {i for i in V if runs(i)}
    return V, executed, V - executed


def _case_json(deps, opts, again):
    j = G.graph_json(deps, kinds=opts,
                     extra={"root": "//:t0", "mode": "again" if again else "default"})
    for i, o in enumerate(opts):
        if o == "E":  # the two recorded versions (timestamps) inserted for this task
            j["tasks"][G.task_name(i)]["recorded_versions"] = [1000 + i, 2000 + i]
    return j


def _eval_case(env, deps, gi, opts, again, tally):
    n = gi["n"]
    tc = gi["tc"]
    # ---- build the real objects
    tasks = {G.task_name(i): env.raw(i, opts[i], deps[i]) for i in range(n)}
    ti = env.index_factory.make({G.COND: tasks})
    recorded = []
    for i in range(n):
        if opts[i] == "E":
            recorded.append((env.idents[i], 1000 + i))
            recorded.append((env.idents[i], 2000 + i))
    vi = env.vi_factory.fresh(recorded)
    created = []
    orig_gen = vi.generate_new_output_version
    TaskType = env.TaskType

    def counting_generate(*a, **kw):
        v = orig_gen(*a, **kw)
        created.append((_caller_task(TaskType), v))
        return v

    vi.generate_new_output_version = counting_generate
    ctx = G.StubContext(env.root, ti, vi)
    root_id = env.idents[0]

    # ---- oracle
    V, executed, pruned = _needed(deps, opts, again)
    par = G.parents_within(deps, executed)
    shared = any(len(ps) >= 2 for v, ps in par.items())
    inp = None

    def the_input():
        nonlocal inp
        if inp is None:
            inp = _case_json(deps, opts, again)
        return inp

    size = (n, gi["edges"], sum(1 for o in opts if o != "c"), int(again))
    sclass = None

    def struct_class():
        nonlocal sclass
        if sclass is None:
            sclass = G.structural_class(deps, executed)
        return sclass

    # ---- the real functions (as cli/run.main calls them).  The pre-load is not
    # under test here (rt_taskindex): if it misbehaves the planner still gets its
    # tasks through `get_task`, which materialises them on demand.
    env.wd.call(ti.load_transitive_closure, root_id)
    planner = env.ExecutionPlanner(ctx)
    plan, ex = env.wd.call(planner.create_plan_for, root_id, run_again=again)
    if ex is not None:
        for name in NAMES:
            tally.ev(name, False)
        nonterm = isinstance(ex, G.NonTermination)
        tally.fail(P2, size, {
            "clause": "P2", "class": "non-termination" if nonterm else "planner-raised-" + type(ex).__name__,
            "input": the_input(), "expected": "a plan (the closure is complete and acyclic)",
            "observed": "%s: %s" % (type(ex).__name__, ex)})
        return

    ops = list(plan.all_ops)
    op_idx = []
    for op in ops:
        t = op.main_task if op.main_task is not None else op.associated_task
        if t is None:
            raise G.HarnessError("operation without task: %r" % (op,))
        key = str(t.identifier)
        if key not in env.id_index:
            raise G.HarnessError("unknown task identifier in plan: " + key)
        op_idx.append(env.id_index[key])
    cached_idx = [env.id_index[str(t.identifier)] for t in plan.cached_tasks]
    lowered = set(op_idx)
    ops_of = {}
    for op, i in zip(ops, op_idx):
        ops_of.setdefault(i, []).append(op)
    tn = G.task_name

    # ---- P1
    tally.ev(P1, shared)
    dup = sorted(i for i in lowered if len(ops_of[i]) > 1)
    if dup:
        tally.fail(P1, size, {
            "clause": "P1", "class": struct_class(), "input": the_input(),
            "expected": "one operation per task identifier",
            "observed": {"ops_in_order": [tn(i) for i in op_idx],
                         "lowered_more_than_once": [tn(i) for i in dup]}})

    # ---- P2
    tally.ev(P2, shared or bool(pruned) or len(V) < n)
    problems = []
    if lowered != executed:
        problems.append("executed set differs")
    if sorted(cached_idx) != sorted(pruned):
        problems.append("cached_tasks differs (duplicates count)")
    if not (lowered | set(cached_idx)) <= V:
        problems.append("task outside the needed closure")
    if problems:
        tally.fail(P2, size, {
            "clause": "P2", "class": struct_class(), "input": the_input(),
            "expected": {"executed": sorted(tn(i) for i in executed),
                         "cached_tasks": sorted(tn(i) for i in pruned)},
            "observed": {"executed": sorted(tn(i) for i in lowered),
                         "cached_tasks": [tn(i) for i in cached_idx],
                         "problems": problems}})

    # ---- P5
    tally.ev(P5, bool(pruned))
    both = lowered & set(cached_idx)
    if both:
        tally.fail(P5, size, {
            "clause": "P5", "class": struct_class(), "input": the_input(),
            "expected": "no task both cached and executed",
            "observed": {"cached_and_executed": sorted(tn(i) for i in both)}})

    # ---- P4
    op_pos = {id(op): k for k, op in enumerate(ops)}
    problems = []
    if plan.num_tasks_to_run != len(ops):
        problems.append("num_tasks_to_run=%r but %d ops" % (plan.num_tasks_to_run, len(ops)))
    init_ids = [id(o) for o in plan.initial_ops]
    want_init = [id(o) for o in ops if len(o.exe_deps) == 0]
    if sorted(init_ids) != sorted(want_init):
        problems.append("initial_ops != ops without exe_deps")
    any_edge = False
    for op in ops:
        e_ids = [id(x) for x in op.exe_deps]
        d_ids = [id(x) for x in op.deps_of]
        if e_ids:
            any_edge = True
        if len(set(e_ids)) != len(e_ids):
            problems.append("duplicate in exe_deps")
        if len(set(d_ids)) != len(d_ids):
            problems.append("duplicate in deps_of")
        for x in op.exe_deps:
            if id(x) not in op_pos:
                problems.append("exe_dep not in all_ops")
            elif not any(y is op for y in x.deps_of):
                problems.append("exe_deps edge without deps_of counterpart")
        for x in op.deps_of:
            if id(x) not in op_pos:
                problems.append("deps_of not in all_ops")
            elif not any(y is op for y in x.exe_deps):
                problems.append("deps_of edge without exe_deps counterpart")
    tally.ev(P4, any_edge)
    if problems:
        tally.fail(P4, size, {
            "clause": "P4", "class": struct_class(), "input": the_input(),
            "expected": "num_tasks_to_run == len(all_ops); initial_ops == ops without "
                        "exe_deps; exe_deps/deps_of symmetric and duplicate-free",
            "observed": sorted(set(problems))})

    # ---- P7 (attribute each generated version to a task)
    created_for = {}
    unknown = 0
    for who, v in created:
        i = env.id_index.get(who) if who is not None else None
        if i is None:
            for op, j in zip(ops, op_idx):
                if getattr(op, "_version_to_record", None) is v:
                    i = j
                    break
        if i is None:
            unknown += 1
        else:
            created_for.setdefault(i, []).append(v)
    exp_lowered = {i for i in lowered if opts[i] in "eE"}
    tally.ev(P7, any(opts[i] in "eE" for i in executed))
    multi = sorted(i for i, vs in created_for.items() if len(vs) > 1)
    if multi or len(created) > max(len(exp_lowered), len({i for i in executed if opts[i] in "eE"})):
        tally.fail(P7, size, {
            "clause": "P7", "class": struct_class(), "input": the_input(),
            "expected": "at most one new version per task identifier per planning",
            "observed": {"versions_created": {tn(i): len(vs) for i, vs in sorted(created_for.items())},
                         "unattributed": unknown}})

    # ---- P3 / P3t
    anc = {}

    def ancestors(op):
        got = anc.get(id(op))
        if got is None:
            got = set()
            work = list(op.exe_deps)
            while work:
                x = work.pop()
                if id(x) in got:
                    continue
                got.add(id(x))
                work.extend(x.exe_deps)
            anc[id(op)] = got
        return got

    direct_pairs = [(u, d) for u in sorted(lowered) for d in deps[u] if d in lowered]
    tally.ev(P3, bool(direct_pairs))
    missing = []
    for u, d in direct_pairs:
        for U in ops_of[u]:
            if not any(any(x is o for x in U.exe_deps) for o in ops_of[d]):
                missing.append("%s -> %s" % (tn(u), tn(d)))
                break
    if missing:
        tally.fail(P3, size, {
            "clause": "P3", "class": struct_class(), "input": the_input(),
            "expected": "op(d) in exe_deps(op(u)) for every lowered direct dependency d of a lowered u",
            "observed": {"missing_edges": missing,
                         "op_edges": sorted("%s -> %s" % (tn(op_idx[op_pos[id(o)]]), tn(op_idx[op_pos[id(x)]]))
                                            for o in ops for x in o.exe_deps if id(x) in op_pos)}})

    # lowered-only reachability (>= 1 edge)
    reach_l = {}
    for u in lowered:
        seen = set()
        work = [d for d in deps[u] if d in lowered]
        while work:
            x = work.pop()
            if x in seen:
                continue
            seen.add(x)
            work.extend(d for d in deps[x] if d in lowered)
        reach_l[u] = seen
    missing_l, missing_c = [], []
    nt_l = nt_c = False
    for u in sorted(lowered):
        for v in sorted(lowered):
            if v == u or v not in tc[u]:
                continue
            via_lowered = v in reach_l[u]
            if via_lowered and v not in deps[u]:
                nt_l = True
            if not via_lowered:
                nt_c = True
            ok = True
            for U in ops_of[u]:
                a = ancestors(U)
                if not any(id(o) in a for o in ops_of[v]):
                    ok = False
                    break
            if not ok:
                (missing_l if via_lowered else missing_c).append("%s ->+ %s" % (tn(u), tn(v)))
    tally.ev(P3T, nt_l)
    if missing_l:
        tally.fail(P3T, size, {
            "clause": "P3t", "class": struct_class(), "input": the_input(),
            "expected": "op(v) is an exe_deps+ ancestor of op(u) for v reachable from u through lowered tasks",
            "observed": {"unordered_pairs": missing_l}})
    tally.ev(P3C, nt_c)
    if missing_c:
        tally.fail(P3C, size, {
            "clause": "P3t", "class": "dependency-reached-only-through-cached-intermediate",
            "input": the_input(),
            "expected": "op(v) is an exe_deps+ ancestor of op(u) also when every path from u to v passes a pruned task",
            "observed": {"unordered_pairs": missing_c,
                         "pruned": sorted(tn(i) for i in set(range(n)) - lowered if i in V)}})

    # ---- C07 / C18 dependency snapshot
    out = ctx.output_path

    def final_dir(d):
        k = opts[d]
        if k == "g":
            return None
        if k in "cm":
            return out / (tn(d) + ".task")
        vs = created_for.get(d)
        if vs:
            return out / ("%s.task.%d" % (tn(d), vs[-1].timestamp))
        if k == "E":
            return out / ("%s.task.%d" % (tn(d), 2000 + d))
        return None

    # stable rendering (wall-clock timestamps -> "new#k": k-th version created
    # for that task in this plan)
    sym = {}
    for d, vs in created_for.items():
        for k, v in enumerate(vs):
            sym["%s.task.%d" % (tn(d), v.timestamp)] = "%s.task.<new#%d>" % (tn(d), k + 1)

    def show(p):
        r = _rel(p, out)
        return sym.get(r, r)

    bad7, bad18 = [], []
    nt7 = nt18 = False
    for op, u in zip(ops, op_idx):
        if isinstance(op, env.RunTaskExecutable):
            want = [p for p in (final_dir(d) for d in deps[u]) if p is not None]
            got = list(op._deps_output_paths)
            if any(opts[d] in "eE" for d in deps[u]):
                nt7 = True
            if got != want:
                bad7.append({"task": tn(u), "expected": [show(p) for p in want],
                             "observed": [show(p) for p in got]})
        elif isinstance(op, env.CombineOutputs):
            want = [(str(env.idents[d]), p) for d, p in ((d, final_dir(d)) for d in deps[u])
                    if p is not None]
            got = [(str(a), b) for a, b in op._deps_output_paths]
            if any(opts[d] in "eE" for d in deps[u]):
                nt18 = True
            if got != want:
                bad18.append({"task": tn(u),
                              "expected": [(a, show(p)) for a, p in want],
                              "observed": [(a, show(p)) for a, p in got]})
    tally.ev(C07, nt7)
    if bad7:
        tally.fail(C07, size, {
            "clause": "deps_snapshot", "class": struct_class(), "input": the_input(),
            "expected": "every dependent sees, in declared order, the final output directory of each "
                        "dependency (the version created in this plan / the selected existing version)",
            "observed": bad7})
    tally.ev(C18, nt18)
    if bad18:
        tally.fail(C18, size, {
            "clause": "combine_deps_snapshot", "class": struct_class(), "input": the_input(),
            "expected": "(dependency id, final output directory) pairs in declared order",
            "observed": bad18})


def _rel(p, base):
    try:
        return str(p.relative_to(base))
    except Exception:  # noqa: BLE001
        return str(p)


def _worker(arg):
    shard, nshards, payload = arg
    tier, root = payload["tier"], payload["root"]
    env = _Env(root)
    tally = G.Tally(NAMES)
    blocks = _blocks(tier)
    offsets = []
    total = 0
    for gos, optl in blocks:
        offsets.append(total)
        total += len(gos) * len(optl)
    last_deps, last_gi = None, None
    seen_samples = 0
    try:
        for item in G.shard_range(total, shard, nshards):
            b = len(blocks) - 1
            while offsets[b] > item:
                b -= 1
            gos, optl = blocks[b]
            g, o = divmod(item - offsets[b], len(optl))
            deps, opts = gos[g], optl[o]
            if env.wd.exhausted:
                break
            if deps is not last_deps:
                last_deps, last_gi = deps, _graph_info(deps)
            for again in (False, True):
                if again and len(deps) >= 5 and "E" in opts:
                    continue  # 5 tasks: with --again a recorded version changes nothing but the clock
                _eval_case(env, deps, last_gi, opts, again, tally)
            if seen_samples < 1 and len(deps) >= 3 and G.n_edges(deps) >= 3:
                seen_samples += 1
                for name in NAMES:
                    tally.sample(name, _case_json(deps, opts, True))
    finally:
        env.vi_factory.close()
    return tally, not env.wd.exhausted


def run(tier, seed):
    t0 = time.time()
    root = tempfile.mkdtemp(prefix="verif-")
    try:
        tallies = G.run_sharded(_worker, {"tier": tier, "root": root}, nshards=G.n_processes() * 8)
    finally:
        shutil.rmtree(root, ignore_errors=True)
    total = G.merge_tallies([t for t, _ in tallies], NAMES)
    complete = all(c for _, c in tallies)
    wall = time.time() - t0
    out = []
    for name in NAMES:
        c = total.get(name)
        out.append(result(
            name, PROPS[name], FUNCTION, _scope(tier), exhaustive=complete,
            evaluations=c["ev"], distinct_nontrivial=c["nt"], rule=RULES[name],
            failures=total.failures(name), samples=c["samples"], wall_s=wall,
            n_failures=c["nf"]))
    return out


if __name__ == "__main__":
    from runtime.common import main

    main(run)
