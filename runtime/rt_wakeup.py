"""C09 -- no lost wake-up: SigchldHelper.wait() returns although SIGCHLD is delivered at the worst possible moment.

The self-pipe that wait() sleeps on is written by the PYTHON-level SIGCHLD handler, and CPython runs such handlers only
in the main thread in between bytecode instructions.  Legal schedule: the task exits (SIGCHLD delivered, the C-level
handler merely sets a flag) after the interpreter's last check for pending signals and before the blocking system call
of wait() begins.  If that call can sleep indefinitely, nothing ever runs the handler: `cond run` hangs with the task
left as a zombie (defect F11: 2 hangs in 1200 runs of tests/fixture-projects/partial-success on a loaded machine).

The window is made deterministic, not widened: SIGCHLD is blocked while n children exit (they become zombies, one
SIGCHLD stays pending); the first blocking primitive that wait() calls in conductor.utils.sigchld (os.read /
select.select / select.poll().poll) is replaced by a wrapper that, in ONE C-level call
(`list(itertools.starmap(operator.call, [(pthread_sigmask via ctypes: unblock), (real primitive, args)]))`), unblocks
the signal -- it is delivered on return from the system call and CPython's C handler trips its flag -- and then calls the
real primitive with no bytecode boundary in between, exactly as in the race.  Expected: n calls of wait() return every
(pid, status) once.  Bounded stand-in (n in 1..3 x 2 status variants); every case runs in a supervised forked process.
"""
import ctypes
import itertools
import operator
import os
import select
import signal
import sys
import time

sys.dont_write_bytecode = True
from runtime.common import result  # noqa: E402
from runtime.rt_abort import supervised_fork, pid_state  # noqa: E402

NAME = "C09.sigchld.no_lost_wakeup_when_the_signal_arrives_just_before_wait_blocks"
FUNCTION = "utils/sigchld.py::SigchldHelper.wait (+ _handler, track)"
CASE_TIMEOUT = 10.0


class _SigSet(ctypes.Structure):
    _fields_ = [("v", ctypes.c_ulong * 16)]


class _Proxy:
    def __init__(self, mod, overrides):
        self.__dict__["_mod"] = mod
        self.__dict__["_ov"] = overrides

    def __getattr__(self, name):
        ov = self.__dict__["_ov"]
        if name in ov:
            return ov[name]
        return getattr(self.__dict__["_mod"], name)


def _case(case, write_line):
    import conductor.utils.sigchld as m
    from conductor.utils.sigchld import SigchldHelper

    libc = ctypes.CDLL(None, use_errno=True)
    ss = _SigSet()
    libc.sigemptyset(ctypes.byref(ss))
    libc.sigaddset(ctypes.byref(ss), int(signal.SIGCHLD))
    SIG_UNBLOCK = 1
    fired = []

    def atomically(real, label):
        def wrapper(*args):
            if fired:
                return real(*args)
            fired.append(label)
            # one C-level call: deliver the pending SIGCHLD (C handler trips the flag), then block -- no bytecode in between
            return list(itertools.starmap(operator.call, [(libc.pthread_sigmask, SIG_UNBLOCK, ctypes.byref(ss), None), (real,) + tuple(args)]))[1]
        return wrapper

    class _Poll:
        def __init__(self, real):
            self._real = real
            self.poll = atomically(real.poll, "select.poll().poll")

        def __getattr__(self, name):
            return getattr(self._real, name)

    m.os = _Proxy(os, {"read": atomically(os.read, "os.read")})
    if hasattr(m, "select"):
        m.select = _Proxy(select, {"select": atomically(select.select, "select.select"), "poll": lambda *a: _Poll(select.poll(*a))})

    helper = SigchldHelper.instance()
    got, error = [], None
    with helper.track():
        signal.pthread_sigmask(signal.SIG_BLOCK, {signal.SIGCHLD})
        pids = []
        for code in case["codes"]:
            pid = os.fork()
            if pid == 0:
                os._exit(code)  # pylint: disable=protected-access
            pids.append(pid)
        end = time.time() + 3
        while time.time() < end and not all(pid_state(p) == "Z" for p in pids):
            time.sleep(0.002)
        write_line({"expected": [[p, c] for p, c in zip(pids, case["codes"])], "all_zombies": all(pid_state(p) == "Z" for p in pids)})
        try:
            for _ in pids:
                got.append(list(helper.wait()))
        except BaseException as ex:  # pylint: disable=broad-except
            error = "{}: {}".format(type(ex).__name__, ex)
    write_line({"got": got, "error": error, "fired": fired})


def _job(case):
    hang = {}
    lines, hung, status = supervised_fork(lambda w: _case(case, w), CASE_TIMEOUT, hang_info=hang)
    return case, lines, hung, status, hang


def run(tier, seed):
    t0 = time.time()
    cases = []
    for n in (1, 2, 3):
        for variant in (0, 1):
            cases.append({"n": n, "codes": [(7 * (i + 1) + variant * 3) % 200 if (i + variant) % 2 else 0 for i in range(n)]})
    failures, samples = [], []
    ev = nt = nf = 0
    for case in cases:
        case, lines, hung, status, hang = _job(case)
        ev += 1
        nt += 1
        info = {}
        for ln in lines:
            if isinstance(ln, dict):
                info.update(ln)
        if "harness_error" in info:
            raise RuntimeError("rt_wakeup harness: " + info["harness_error"][-600:])
        if not info.get("all_zombies", False):
            raise RuntimeError("rt_wakeup harness: children did not exit in time")
        if len(samples) < 2:
            samples.append({"children": case["n"], "exit_codes": case["codes"]})
        fail = None
        if hung:
            fail = ("lost-wakeup-wait-sleeps-while-an-exited-task-is-never-reaped", "wait() returns each exited child",
                    "wait() still blocked after %.0f s; processes below it: %r" % (CASE_TIMEOUT, hang.get("descendants")))
        else:
            if not info.get("fired"):
                raise RuntimeError("rt_wakeup harness: wait() did not call any of the intercepted blocking primitives (os.read, select.select, select.poll): the schedule was not exercised")
            if info.get("error"):
                fail = ("wait-raised", "no exception", info["error"])
            elif sorted(info.get("got", [])) != sorted(info.get("expected", [])):
                fail = ("completion-lost-or-duplicated", sorted(info.get("expected", [])), sorted(info.get("got", [])))
        if fail:
            nf += 1
            if len(failures) < 5:
                failures.append({"clause": "no_lost_wakeup", "class": fail[0], "input": case, "expected": fail[1], "observed": fail[2]})
    return [result(NAME, ["C09"], FUNCTION,
                   "n in 1..3 children that have exited (zombies) with SIGCHLD pending x 2 exit-status variants; the signal is delivered in the same C-level call that enters wait()'s first blocking primitive",
                   exhaustive=True, evaluations=ev, distinct_nontrivial=nt,
                   rule="distinct (n, exit statuses); every case is the race schedule itself",
                   failures=failures, samples=samples, wall_s=time.time() - t0, n_failures=nf)]


if __name__ == "__main__":
    from runtime import common
    raise SystemExit(common.main(run))
