"""C09 -- the SIGCHLD hand-off, attribution of exits, and the single-reaper rule,
on the REAL classes with REAL short-lived child processes.

C09.sigchld.every_exit_reported_once
    SigchldHelper.track()/wait(): n in 1..6 children (os.fork/_exit and
    subprocess, exit codes and fatal signals, released simultaneously / one by
    one / exiting immediately / interleaved with the waits); n calls of wait()
    must return every (pid, code) exactly once; a signalled child reports its
    signal number (non-zero).

C09.inflight.ignores_unknown_pids_and_attributes_correctly
    _InflightOperations.add_op / wait_for_next_op with registered and
    unregistered children exiting in every kind of order: every registered
    (handle, op) pair is returned exactly once with that child's status on that
    handle; unregistered pids are never returned.

C09.popen_object_kept_until_reaped
    Real planner + Executor.run_plan + RunTaskExecutable with SIGCHLD delivery
    delayed (pthread_sigmask; a legal schedule) until start_execution has
    returned and gc.collect() ran.  Two schedules:
      * the task's process has exited before Popen() returns,
      * -j2: the first task exits, then the second task is spawned
        (subprocess.Popen.__init__ runs subprocess._cleanup()).
    Each runs in a supervised process with a time-out; "hung" = time-out with
    no live children, class "popen-dropped-before-reap".  A control run without
    the delay must terminate (otherwise the harness raises).

Every case runs in a fresh forked process supervised from outside (a watchdog
thread would receive SIGCHLD itself).
"""
import gc
import itertools
import multiprocessing
import os
import pathlib
import random
import shutil
import signal
import subprocess
import sys
import tempfile
import time

sys.dont_write_bytecode = True      # nothing may be written under /verif
from runtime.common import result  # noqa: E402
from runtime.rt_abort import supervised_fork, silence_stdio, pid_state, children_of

CHECK_ONCE = "C09.sigchld.every_exit_reported_once"
CHECK_INFLIGHT = "C09.inflight.ignores_unknown_pids_and_attributes_correctly"
CHECK_POPEN = "C09.popen_object_kept_until_reaped"

CASE_TIMEOUT = 4.0
F7_TIMEOUT = 6.0
CONFIG = "disable_git = true\n"

EXIT_CODES = [0, 1, 7, 42, 255]
SIGNALS = [int(signal.SIGKILL), int(signal.SIGTERM), int(signal.SIGUSR1)]
HARNESS_SENTINEL = 121      # exit status of a forked child in which the harness itself failed
TIMINGS = ["simultaneous", "staggered", "immediate", "interleaved"]


# --------------------------------------------------------------------------- real children
def _spawn(spec, gated):
    """spec = {"kind": "exit"|"signal", "value": int, "via": "fork"|"subprocess"}.
    Returns (pid, release, keepalive): release() lets the child go."""
    if spec["via"] == "subprocess":
        if spec["kind"] == "exit":
            script = "exit {}".format(spec["value"])
        else:
            script = "kill -{} $$; sleep 5".format(spec["value"])
        if gated:
            script = "read x; " + script
        proc = subprocess.Popen(["/bin/sh", "-c", script], stdin=subprocess.PIPE)

        def release():
            try:
                proc.stdin.write(b"\n")
                proc.stdin.flush()
            except OSError:
                pass
        return proc.pid, release, proc

    r = w = None
    if gated:
        r, w = os.pipe()
    pid = os.fork()
    if pid == 0:
        try:
            signal.signal(signal.SIGCHLD, signal.SIG_DFL)
            if gated:
                os.close(w)
                os.read(r, 1)
            if spec["kind"] == "signal":
                if spec["value"] != signal.SIGKILL:
                    signal.signal(spec["value"], signal.SIG_DFL)
                    signal.pthread_sigmask(signal.SIG_UNBLOCK, {spec["value"]})
                os.kill(os.getpid(), spec["value"])
                time.sleep(5)
            os._exit(spec["value"])  # pylint: disable=protected-access
        finally:
            os._exit(HARNESS_SENTINEL)  # pylint: disable=protected-access
    if gated:
        os.close(r)

    def release():
        if gated:
            try:
                os.write(w, b"x")
                os.close(w)
            except OSError:
                pass
    return pid, release, None


def _all_exited(pids, timeout=2.0):
    end = time.time() + timeout
    while time.time() < end:
        if all(pid_state(p) in ("Z", None) for p in pids):
            return True
        time.sleep(0.002)
    return False


# --------------------------------------------------------------------------- check 1: SigchldHelper
def _sig_case(case, write_line):
    from conductor.utils.sigchld import SigchldHelper

    helper = SigchldHelper.instance()
    timing = case["timing"]
    gated = timing != "immediate"
    keep = []
    got = []
    error = None
    with helper.track():
        kids = []
        for spec in case["children"]:
            pid, release, obj = _spawn(spec, gated)
            kids.append((pid, release))
            keep.append(obj)
        expected = [[pid, spec["value"]] for (pid, _), spec in zip(kids, case["children"])]
        write_line({"expected": expected})
        try:
            if timing == "simultaneous":
                for _, release in kids:
                    release()
            elif timing == "staggered":
                for i in case["order"]:
                    kids[i][1]()
                    time.sleep(0.01)
            elif timing == "immediate":
                # several children exit before anybody calls wait()
                _all_exited([p for p, _ in kids])
            if timing == "interleaved":
                for i in case["order"]:
                    kids[i][1]()
                    got.append(list(helper.wait()))
            else:
                for _ in kids:
                    got.append(list(helper.wait()))
        except BaseException as ex:  # pylint: disable=broad-except
            error = "{}: {}".format(type(ex).__name__, ex)
            for _, release in kids:
                release()
    del keep
    write_line({"got": got, "error": error})


def _sig_cases(tier, seed):
    rnd = random.Random(seed)
    cases = []

    def child(value, kind="exit", via="fork"):
        return {"kind": kind, "value": value, "via": via}

    per_cell = 2 if tier == "quick" else 8
    for n in range(1, 7):
        for timing in TIMINGS:
            for variant in range(per_cell):
                kids = []
                for i in range(n):
                    if variant == 0:
                        # deterministic: distinct exit codes, one signalled, one via subprocess
                        if i == 1:
                            kids.append(child(SIGNALS[(n + i) % len(SIGNALS)], "signal"))
                        else:
                            kids.append(child(EXIT_CODES[(n + i) % len(EXIT_CODES)],
                                              via="subprocess" if i == 2 else "fork"))
                    elif variant == 1:
                        # all the same code: only the pids distinguish the exits
                        kids.append(child(0 if n % 2 else 7))
                    else:
                        if rnd.random() < 0.3:
                            kids.append(child(rnd.choice(SIGNALS), "signal",
                                              "subprocess" if rnd.random() < 0.3 else "fork"))
                        else:
                            kids.append(child(rnd.choice(EXIT_CODES),
                                              via="subprocess" if rnd.random() < 0.2 else "fork"))
                order = list(range(n))
                if variant % 2 == 1:
                    order.reverse()
                if variant >= 2:
                    rnd.shuffle(order)
                cases.append({"n": n, "timing": timing, "children": kids, "order": order})
    return cases


def _judge_sig(case, lines, hung, hang):
    """-> list of (class, expected, observed)"""
    exp = [l["expected"] for l in lines if "expected" in l]
    fin = [l for l in lines if "got" in l]
    if not exp:
        raise RuntimeError("sigchld case died before spawning: {}".format(case))
    expected = sorted(map(tuple, exp[0]))
    if hung:
        alive = [d for d in hang.get("descendants", []) if d[1] not in ("Z", None)]
        if alive:
            raise RuntimeError("sigchld case timed out with live children {}: {}".format(alive, case))
        return [("exit-lost-wait-blocks-forever", "{} calls of wait() return".format(len(expected)),
                 "wait() still blocked after {} s although all {} children had exited".format(
                     CASE_TIMEOUT, len(expected)))]
    if not fin:
        raise RuntimeError("sigchld case ended without a report: {}".format(case))
    got = sorted(map(tuple, fin[0]["got"]))
    if any(code == HARNESS_SENTINEL for _, code in got):
        raise RuntimeError("a forked child of the harness failed before exiting as specified: {}".format(case))
    out = []
    if fin[0]["error"]:
        out.append(("wait-raised-" + fin[0]["error"].split(":")[0], "wait() returns a (pid, code)",
                    fin[0]["error"]))
    if got == expected:
        return out
    exp_map = dict(expected)
    seen = set()
    for pid, code in got:
        if pid in seen:
            out.append(("exit-reported-twice", "each pid once", "pid #{} twice".format(
                [p for p, _ in expected].index(pid) if pid in exp_map else "?")))
        seen.add(pid)
        if pid not in exp_map:
            out.append(("unknown-pid-reported", "only our children", "pid {}".format(pid)))
        elif exp_map[pid] != code:
            spec = case["children"][[p for p, _ in exp[0]].index(pid)]
            cls = ("signalled-child-reported-as-success" if spec["kind"] == "signal" and code == 0
                   else "wrong-code-for-signalled-child" if spec["kind"] == "signal"
                   else "wrong-exit-code")
            out.append((cls, "({}, {})".format("pid", exp_map[pid]), "code {}".format(code)))
    for pid, _ in expected:
        if pid not in seen and not fin[0]["error"]:
            out.append(("exit-lost", "every exit reported", "one child's exit never returned"))
    if not out:
        out.append(("wrong-result", str(expected), str(got)))
    return out


# --------------------------------------------------------------------------- check 2: _InflightOperations
def _inflight_case(case, write_line):
    from conductor.execution.executor import _InflightOperations
    from conductor.execution.handle import OperationExecutionHandle
    from conductor.execution.operation_state import OperationState
    from conductor.execution.ops.operation import Operation
    from conductor.utils.sigchld import SigchldHelper

    inflight = _InflightOperations()
    reg = {}            # pid -> (index, handle, op)
    returned = []
    error = None
    with SigchldHelper.instance().track():
        kids = []
        for i, spec in enumerate(case["children"]):
            pid, release, _ = _spawn(spec, True)
            kids.append((pid, release))
            if spec["registered"]:
                handle = OperationExecutionHandle.from_async_process(pid=pid)
                op = Operation(OperationState.QUEUED)
                inflight.add_op(handle, op)
                reg[pid] = (i, handle, op)
        write_line({"pids": [p for p, _ in kids], "len0": len(inflight)})
        try:
            if case["timing"] == "simultaneous":
                for _, release in kids:
                    release()
            else:
                for i in case["order"]:
                    kids[i][1]()
                    time.sleep(0.01)
            for _ in range(len(reg)):
                handle, op = inflight.wait_for_next_op()
                hit = [i for (i, h, o) in reg.values() if h is handle]
                hit_op = [i for (i, h, o) in reg.values() if o is op]
                returned.append({"handle_of": hit[0] if hit else None,
                                 "op_of": hit_op[0] if hit_op else None,
                                 "pid": handle.pid, "returncode": handle.returncode,
                                 "len_after": len(inflight)})
        except BaseException as ex:  # pylint: disable=broad-except
            error = "{}: {}".format(type(ex).__name__, ex)
        finally:
            for _, release in kids:
                release()
            _all_exited([p for p, _ in kids])
    # statuses left on the handles (a status set on a handle that was not returned shows here)
    final = {str(i): h.returncode for (i, h, o) in reg.values()}
    for p, _ in kids:
        try:
            os.waitpid(p, os.WNOHANG)
        except OSError:
            pass
    write_line({"returned": returned, "error": error, "final": final})


def _inflight_cases(tier, seed):
    rnd = random.Random(seed + 1)
    cases = []
    max_perm = 4 if tier == "quick" else 24
    for m in (1, 2, 3):
        for u in (0, 1, 2):
            kids = []
            for i in range(m):
                if i == 1:
                    kids.append({"kind": "signal", "value": int(signal.SIGTERM), "via": "fork",
                                 "registered": True})
                else:
                    kids.append({"kind": "exit", "value": 10 + i if i else 0, "via": "fork",
                                 "registered": True})
            for j in range(u):
                kids.append({"kind": "exit", "value": 77 + j, "via": "fork", "registered": False})
            n = m + u
            perms = list(itertools.permutations(range(n)))
            chosen = [tuple(range(n)), tuple(reversed(range(n))),
                      tuple(list(range(m, n)) + list(range(m))),       # unregistered first
                      ]
            rest = [p for p in perms if p not in chosen]
            rnd.shuffle(rest)
            chosen = list(dict.fromkeys(chosen + rest))[:max_perm]
            for order in chosen:
                cases.append({"m": m, "u": u, "children": kids, "order": list(order), "timing": "staggered"})
            cases.append({"m": m, "u": u, "children": kids, "order": list(range(n)),
                          "timing": "simultaneous"})
    return cases


def _judge_inflight(case, lines, hung, hang):
    head = [l for l in lines if "pids" in l]
    fin = [l for l in lines if "returned" in l]
    if not head:
        raise RuntimeError("inflight case died before spawning: {}".format(case))
    m = case["m"]
    if head[0]["len0"] != m:
        return [("length-wrong-after-add_op", "len == {}".format(m), "len == {}".format(head[0]["len0"]))]
    if hung:
        alive = [d for d in hang.get("descendants", []) if d[1] not in ("Z", None)]
        if alive:
            raise RuntimeError("inflight case timed out with live children {}: {}".format(alive, case))
        return [("wait_for_next_op-blocks-forever", "{} calls return".format(m),
                 "still blocked after {} s although every child had been released and exited".format(
                     CASE_TIMEOUT))]
    if not fin:
        raise RuntimeError("inflight case ended without a report: {}".format(case))
    out = []
    fin = fin[0]
    if fin["error"]:
        out.append(("wait_for_next_op-raised-" + fin["error"].split(":")[0],
                    "returns a registered pair", fin["error"]))
    seen = set()
    for k, r in enumerate(fin["returned"]):
        idx = r["handle_of"]
        if idx is None:
            out.append(("unregistered-handle-returned", "a registered handle", "pid index unknown"))
            continue
        if r["op_of"] != idx:
            out.append(("handle-paired-with-wrong-op", "op #{}".format(idx), "op #{}".format(r["op_of"])))
        if idx in seen:
            out.append(("registered-op-returned-twice", "each pair once", "pair #{} again".format(idx)))
        seen.add(idx)
        spec = case["children"][idx]
        if r["returncode"] == HARNESS_SENTINEL:
            raise RuntimeError("a forked child of the harness failed before exiting as specified: {}".format(case))
        if r["returncode"] != spec["value"]:
            out.append(("status-attributed-to-wrong-handle" if any(
                c["value"] == r["returncode"] for c in case["children"]) else "wrong-status",
                        "returncode {} on handle #{}".format(spec["value"], idx),
                        "returncode {}".format(r["returncode"])))
        if r["pid"] != head[0]["pids"][idx]:
            out.append(("handle-pid-changed", "pid unchanged", "pid differs"))
        if r["len_after"] != m - (k + 1):
            out.append(("length-not-decreasing", "len == {}".format(m - k - 1),
                        "len == {}".format(r["len_after"])))
    if not fin["error"] and len(seen) != m:
        out.append(("registered-op-never-returned", "all {} pairs".format(m), "{} returned".format(len(seen))))
    return out


# --------------------------------------------------------------------------- check 3: Popen ownership (F7 schedules)
F7_SCHEDULES = {
    "single-exits-before-popen-returns": {
        "jobs": 1, "root": "//:t",
        "cond": 'run_command(name="t", run="exit 0")\n'},
    "second-spawn-after-first-exited": {
        "jobs": 2, "root": "//:all",
        "cond": ('run_command(name="p1", parallelizable=True, run="sleep 0.05")\n'
                 'run_command(name="p2", parallelizable=True, run="sleep 0.3")\n'
                 'run_command(name="all", deps=[":p1", ":p2"], run="sleep 0.05")\n')},
    "single-experiment-exits-before-popen-returns": {
        "jobs": 1, "root": "//:e",
        "cond": 'run_experiment(name="e", run="exit 0")\n'},
    "single-failing-exits-before-popen-returns": {
        "jobs": 1, "root": "//:t",
        "cond": 'run_command(name="t", run="exit 3")\n'},
}
F7_QUICK = ["single-exits-before-popen-returns", "second-spawn-after-first-exited"]


def _f7_scenario(name, root, delayed, write_line):
    silence_stdio()
    from conductor.context import Context
    from conductor.execution.executor import Executor
    from conductor.execution.ops.run_task_executable import RunTaskExecutable
    from conductor.execution.planning.planner import ExecutionPlanner
    from conductor.task_identifier import TaskIdentifier

    spec = F7_SCHEDULES[name]
    ctx = Context(pathlib.Path(root))
    tid = TaskIdentifier.from_str(spec["root"])
    ctx.task_index.load_transitive_closure(tid)
    plan = ExecutionPlanner(ctx).create_plan_for(tid)

    chld = {signal.SIGCHLD}
    real_popen = subprocess.Popen
    orig_start = RunTaskExecutable.start_execution
    calls = []

    def exited(pid):
        end = time.time() + 5.0
        while time.time() < end:
            if pid_state(pid) in ("Z", None):
                return True
            time.sleep(0.002)
        return False

    if name == "second-spawn-after-first-exited":
        def start_execution(self, c, slot):
            calls.append(1)
            if len(calls) == 1:
                if delayed:
                    signal.pthread_sigmask(signal.SIG_BLOCK, chld)
                h = orig_start(self, c, slot)
                ok = exited(h.pid)          # the first task exits; its SIGCHLD is pending
                gc.collect()
                write_line({"first_exited": ok, "first_pid": h.pid})
                return h
            if len(calls) == 2:
                try:
                    h = orig_start(self, c, slot)
                    gc.collect()
                    return h
                finally:
                    write_line({"schedule_applied": True})
                    if delayed:
                        signal.pthread_sigmask(signal.SIG_UNBLOCK, chld)
            return orig_start(self, c, slot)
    else:
        seen = {}

        class SlowPopen(real_popen):
            # the child exits before the parent gets to run again
            def __init__(self, *a, **kw):
                super().__init__(*a, **kw)
                seen["ok"] = exited(self.pid)
                seen["pid"] = self.pid

        def start_execution(self, c, slot):
            if delayed:
                signal.pthread_sigmask(signal.SIG_BLOCK, chld)
            try:
                h = orig_start(self, c, slot)
                gc.collect()
                return h
            finally:
                write_line({"first_exited": seen.get("ok"), "first_pid": seen.get("pid"),
                            "schedule_applied": True})
                if delayed:
                    signal.pthread_sigmask(signal.SIG_UNBLOCK, chld)

        subprocess.Popen = SlowPopen

    RunTaskExecutable.start_execution = start_execution
    exc = None
    try:
        Executor(execution_slots=spec["jobs"]).run_plan(plan, ctx)
    except BaseException as ex:  # pylint: disable=broad-except
        exc = ex
    finally:
        subprocess.Popen = real_popen
        RunTaskExecutable.start_execution = orig_start
    write_line({"returned": True, "exc_type": type(exc).__name__ if exc else None})


def _f7_job(job):
    name, delayed = job
    root = tempfile.mkdtemp(prefix="verif-")
    hang = {}
    try:
        pathlib.Path(root, "cond_config.toml").write_text(CONFIG)
        pathlib.Path(root, "COND").write_text(F7_SCHEDULES[name]["cond"])
        lines, hung, status = supervised_fork(
            lambda w: _f7_scenario(name, root, delayed, w), F7_TIMEOUT, hang_info=hang)
    finally:
        shutil.rmtree(root, ignore_errors=True)
    return {"name": name, "delayed": delayed, "lines": lines, "hung": hung, "status": status,
            "hang": hang}


def _case_job(job):
    kind, case = job
    hang = {}
    fn = _sig_case if kind == "sig" else _inflight_case
    lines, hung, _ = supervised_fork(lambda w: fn(case, w), CASE_TIMEOUT, hang_info=hang)
    return kind, case, lines, hung, hang


# --------------------------------------------------------------------------- run
def _collect(fails):
    fails.sort(key=lambda f: f.pop("_key"))
    seen, first, rest = set(), [], []
    for f in fails:
        (rest if f["class"] in seen else first).append(f)
        seen.add(f["class"])
    out = first + rest
    classes = {}
    for f in out:
        classes[f["class"]] = classes.get(f["class"], 0) + 1
    return out, classes


def run(tier, seed):
    t0 = time.time()
    import conductor.execution.executor  # noqa: F401  pylint: disable=unused-import
    import conductor.execution.planning.planner  # noqa: F401  pylint: disable=unused-import
    from conductor.envs.manager import EnvManager
    EnvManager.create()     # warms the (optional, slow) imports Context.__init__ triggers

    sig_cases = _sig_cases(tier, seed)
    inf_cases = _inflight_cases(tier, seed)
    schedules = F7_QUICK if tier == "quick" else list(F7_SCHEDULES)
    ctx = multiprocessing.get_context("fork")
    with ctx.Pool(processes=min(16, os.cpu_count() or 1)) as pool:
        f7_async = pool.map_async(
            _f7_job, [(n, d) for n in schedules for d in (False, True)], chunksize=1)
        t1 = time.time()
        case_results = pool.map(
            _case_job, [("sig", c) for c in sig_cases] + [("inf", c) for c in inf_cases], chunksize=2)
        t_cases = time.time() - t1
        f7_results = f7_async.get()
    t_all = time.time() - t0

    # ---- checks 1 and 2
    fails = {"sig": [], "inf": []}
    nontriv = {"sig": 0, "inf": 0}
    for idx, (kind, case, lines, hung, hang) in enumerate(case_results):
        judge = _judge_sig if kind == "sig" else _judge_inflight
        problems = judge(case, lines, hung, hang)
        if kind == "sig":
            nontriv["sig"] += 1 if case["n"] > 1 else 0
        else:
            nontriv["inf"] += 1 if (case["u"] > 0 or case["m"] > 1) else 0
        for cls, expected, observed in problems[:1]:
            size = len(case["children"])
            fails[kind].append({"clause": "each exit once" if kind == "sig" else "attribution",
                                "class": cls, "input": case, "expected": expected, "observed": observed,
                                "_key": (size, idx)})

    out = []
    fl, classes = _collect(fails["sig"])
    r = result(CHECK_ONCE, ["C09", "C06", "C01", "C03"], "utils/sigchld.py::SigchldHelper.{track,wait,_handler}",
               "n in 1..6 real children (fork/_exit and /bin/sh; exit codes {} and signals {}) x timing {} x "
               "{} code/order variants per cell".format(EXIT_CODES, SIGNALS, TIMINGS,
                                                        2 if tier == "quick" else 8),
               exhaustive=False, evaluations=len(sig_cases), distinct_nontrivial=nontriv["sig"],
               rule="one evaluation per (n, timing, variant); non-trivial = more than one child",
               failures=fl, samples=sig_cases[5:8], wall_s=t_cases, n_failures=len(fl))
    r["failure_classes"] = classes
    out.append(r)

    fl, classes = _collect(fails["inf"])
    r = result(CHECK_INFLIGHT, "C09", "execution/executor.py::_InflightOperations.{add_op,wait_for_next_op}",
               "m in 1..3 registered x u in 0..2 unregistered real children, distinct statuses, exit orders: "
               "identity, reversed, unregistered-first, {} more permutations, and simultaneous".format(
                   "1" if tier == "quick" else "up to 21"),
               exhaustive=False, evaluations=len(inf_cases), distinct_nontrivial=nontriv["inf"],
               rule="one evaluation per (m, u, exit order); non-trivial = an unregistered child or more "
                    "than one registered child",
               failures=fl, samples=inf_cases[10:13], wall_s=t_cases, n_failures=len(fl))
    r["failure_classes"] = classes
    out.append(r)

    # ---- check 3
    by = {(r["name"], r["delayed"]): r for r in f7_results}
    fl = []
    samples = []
    for i, name in enumerate(schedules):
        ctl, res = by[(name, False)], by[(name, True)]
        if ctl["hung"] or not any(l.get("returned") for l in ctl["lines"]):
            raise RuntimeError("schedule {}: the control run (SIGCHLD not delayed) did not terminate: "
                               "{}".format(name, ctl))
        applied = any(l.get("schedule_applied") for l in res["lines"])
        exited = [l for l in res["lines"] if "first_exited" in l]
        if not applied or not exited or not exited[0]["first_exited"]:
            raise RuntimeError("schedule {} was not applied: {}".format(name, res))
        inp = {"schedule": name, "plan": F7_SCHEDULES[name]["cond"], "jobs": F7_SCHEDULES[name]["jobs"],
               "sigchld": "blocked from before start_execution until it returned and gc.collect() ran"}
        samples.append(inp)
        if res["hung"]:
            alive = [d for d in res["hang"].get("descendants", []) if d[1] not in ("Z", None)]
            if alive:
                raise RuntimeError("schedule {} timed out with live children {}".format(name, alive))
            fl.append({"clause": "owner(popen) until reaped", "class": "popen-dropped-before-reap",
                       "input": inp,
                       "expected": "run_plan returns once all tasks have exited (the control run does)",
                       "observed": "run_plan still blocked after {} s; no live children; the exited task "
                                   "process had been reaped by someone other than the SIGCHLD "
                                   "handler".format(F7_TIMEOUT),
                       "_key": (i,)})
        elif not any(l.get("returned") for l in res["lines"]):
            raise RuntimeError("schedule {}: process ended without a report: {}".format(name, res))
    fl, classes = _collect(fl)
    r = result(CHECK_POPEN, "C09",
               "execution/ops/run_task_executable.py::RunTaskExecutable.start_execution + "
               "execution/executor.py::Executor.run_plan",
               "delayed-SIGCHLD schedules {} on the real planner + executor, each with a control run".format(
                   schedules),
               exhaustive=True, evaluations=len(schedules), distinct_nontrivial=len(schedules),
               rule="one evaluation per schedule; all non-trivial (the schedule is verified to have been "
                    "applied: the task had exited while SIGCHLD was pending)",
               failures=fl, samples=samples, wall_s=t_all, n_failures=len(fl))
    r["failure_classes"] = classes
    out.append(r)
    return out


if __name__ == "__main__":
    from runtime.common import main

    main(run)
