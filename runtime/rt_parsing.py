"""C15 (COND definitions: well-formed accepted, malformed rejected cleanly) and
C19 (run_experiment_group == its documented expansion).

Real code driven: parsing.validation.generate_type_validator on the schemas read from
conductor.task_types.raw_task_types, RawTaskType.load_from_cond_file, RunArguments/
RunOptions.from_raw, Combine.__init__, TaskLoader.parse_cond_file on COND files written
to a scratch project.
"""
import itertools
import json
import multiprocessing
import os
import pathlib
import shutil
import tempfile
import time
import typing


def _mkscratch():
    """tempfile.mkdtemp(prefix="verif-"), on tmpfs when TMPDIR is not set (directory-heavy scenarios
    are ~4x faster there and do not contend on the ext4 journal when sharded over 16 workers)."""
    base = os.environ.get("TMPDIR") or ("/dev/shm" if os.access("/dev/shm", os.W_OK | os.X_OK) else None)
    return tempfile.mkdtemp(prefix="verif-", dir=base)


_POOL_TIMEOUT_S = 3600    # a dead worker must not hang the driver for ever


def _safe(fn):
    """Pool workers must only raise picklable exceptions (a ConductorError with keyword-only
    constructor arguments cannot be unpickled in the parent and would hang the pool)."""
    import functools
    import traceback

    @functools.wraps(fn)
    def wrapper(job):
        try:
            return fn(job)
        except BaseException:
            raise RuntimeError("harness worker %s crashed on job %r:\n%s"
                               % (fn.__name__, job, traceback.format_exc())) from None
    return wrapper


# --------------------------------------------------------------------------- accumulator
def _size(inp):
    text = json.dumps(inp, default=str, sort_keys=True)
    return (len(text), text)


class Acc:
    def __init__(self):
        self.ev = 0
        self.nt = 0
        self.nf = 0
        self.fails = []
        self.samples = []
        self.classes = {}

    def sample(self, inp, cap=3):
        if len(self.samples) < cap:
            self.samples.append(inp)

    def fail(self, clause, cls, inp, expected, observed):
        self.nf += 1
        self.classes[cls] = self.classes.get(cls, 0) + 1
        self.fails.append({"clause": clause, "class": cls, "input": inp,
                           "expected": str(expected), "observed": str(observed)})
        if len(self.fails) > 200:
            self._trim()

    def _trim(self):
        per = {}
        for f in sorted(self.fails, key=lambda f: _size(f["input"])):
            per.setdefault(f["class"], [])
            if len(per[f["class"]]) < 5:
                per[f["class"]].append(f)
        self.fails = [f for fs in per.values() for f in fs]

    def merge(self, other):
        self.ev += other.ev
        self.nt += other.nt
        self.nf += other.nf
        for k, v in other.classes.items():
            self.classes[k] = self.classes.get(k, 0) + v
        self.fails.extend(other.fails)
        self._trim()
        for s in other.samples:
            self.sample(s)

    def selected_failures(self):
        ordered = sorted(self.fails, key=lambda f: _size(f["input"]))
        first, seen = [], set()
        for f in ordered:
            if f["class"] not in seen:
                seen.add(f["class"])
                first.append(f)
        rest = [f for f in ordered if all(f is not g for g in first)]
        chosen = (first + rest)[:5]
        return sorted(chosen, key=lambda f: _size(f["input"]))

    def result(self, name, prop, function, scope, exhaustive, rule, wall):
        from runtime.common import result
        r = result(name, prop, function, scope, exhaustive=exhaustive, evaluations=self.ev,
                   distinct_nontrivial=self.nt, rule=rule, failures=self.selected_failures(),
                   samples=self.samples, wall_s=wall, n_failures=self.nf)
        r["failure_classes"] = dict(sorted(self.classes.items()))
        return r


# --------------------------------------------------------------------------- oracles
_NAME_CHARS = set("abcdefghijklmnopqrstuvwxyzABCDEFGHIJKLMNOPQRSTUVWXYZ0123456789_-")


def g_name(s):
    return type(s) is str and len(s) > 0 and all(ch in _NAME_CHARS for ch in s)


def o_is_optional(t):
    return typing.get_origin(t) is typing.Union and type(None) in typing.get_args(t)


def o_has_type(v, t):
    """Does value v have schema type t? (type tags, no isinstance: bool is not int)"""
    if o_is_optional(t):
        if v is None:
            return True
        inner = [x for x in typing.get_args(t) if x is not type(None)]
        return any(o_has_type(v, x) for x in inner)
    if isinstance(t, list):
        if len(t) != 1:
            raise RuntimeError("harness: unsupported list schema %r" % (t,))
        return type(v) is list and all(o_has_type(e, t[0]) for e in v)
    if t in (str, bool, list, dict, float):
        return type(v) is t
    if t is int:
        raise RuntimeError("harness: an int schema appeared; decide how bool is to be treated")
    raise RuntimeError("harness: unsupported schema type %r" % (t,))


def o_causes(schema, arguments):
    """Set of applicable rejection causes (empty = accept)."""
    causes = set()
    for key, t in schema.items():
        if key not in arguments:
            if not o_is_optional(t):
                causes.add("MissingTaskParameter")
        elif not o_has_type(arguments[key], t):
            causes.add("InvalidTaskParameterType")
    if any(k not in schema for k in arguments):
        causes.add("UnrecognizedTaskParameters")
    return causes


ABSENT = "<absent>"
VALUE_POOL = ["s", 3, True, None, ["a", "b"], ["a", 1], {"k": 1}, 0.5, []]
UNKNOWN_KEY = "zz_unknown"


def _canonical_index(t):
    for i, v in enumerate(VALUE_POOL):
        if v is not None and o_has_type(v, t):
            return i + 1
    raise RuntimeError("harness: no pool value of type %r" % (t,))


def _states_to_args(keys, states, unknown):
    args = {}
    for k, s in zip(keys, states):
        if s != 0:
            args[k] = VALUE_POOL[s - 1]
    if unknown:
        args[UNKNOWN_KEY] = "s"
    return args


def _quick_assignments(n_keys, canon):
    n_states = len(VALUE_POOL) + 1
    seen = set()
    for mask in range(2 ** n_keys):
        seen.add(tuple(canon[i] if (mask >> i) & 1 else 0 for i in range(n_keys)))
    for r in range(0, min(3, n_keys) + 1):
        for idxs in itertools.combinations(range(n_keys), r):
            others = [[s for s in range(n_states) if s != canon[i]] for i in idxs]
            for states in itertools.product(*others):
                a = list(canon)
                for i, s in zip(idxs, states):
                    a[i] = s
                seen.add(tuple(a))
    return sorted(seen)


@_safe
def _validator_worker(job):
    type_name, mode, fixed = job
    from conductor.task_types import raw_task_types
    from conductor.parsing.validation import generate_type_validator
    import conductor.errors as errors

    a = Acc()
    raw = raw_task_types[type_name]
    schema = raw._schema
    keys = list(schema.keys())
    validator = generate_type_validator(raw.name, schema)
    canon = [_canonical_index(schema[k]) for k in keys]
    n_states = len(VALUE_POOL) + 1
    if mode == "quick":
        assignments = _quick_assignments(len(keys), canon)
        assignments = [s for i, s in enumerate(assignments) if i % fixed[1] == fixed[0]]
    else:
        rest = len(keys) - len(fixed)
        assignments = (tuple(fixed) + t for t in itertools.product(range(n_states), repeat=rest))
    for states in assignments:
        for unknown in (False, True):
            args = _states_to_args(keys, states, unknown)
            causes = o_causes(schema, args)
            a.ev += 1
            if len(causes) <= 1:
                a.nt += 1
            try:
                validator(args)
                got = "accept"
            except errors.ConductorError as ex:
                got = type(ex).__name__
            except Exception as ex:
                got = "bare " + type(ex).__name__
            if not causes:
                a.sample({"task_type": type_name, "arguments": args})
            if (got == "accept") != (not causes) or (causes and got not in causes):
                inp = {"task_type": type_name, "arguments": args}
                if got == "accept":
                    if causes == {"UnrecognizedTaskParameters"}:
                        cls = "unknown-parameter-accepted"
                    elif causes == {"MissingTaskParameter"}:
                        cls = "missing-parameter-accepted"
                    elif causes == {"InvalidTaskParameterType"}:
                        cls = "wrong-type-accepted"
                    else:
                        cls = "malformed-arguments-accepted"
                elif not causes:
                    cls = "well-formed-arguments-rejected"
                elif got.startswith("bare "):
                    cls = "bare-python-exception"
                else:
                    cls = "rejection-names-wrong-cause"
                a.fail("iff_schema", cls, inp, sorted(causes) or "accept", got)
    return a


# --------------------------------------------------------------------------- load_from_cond_file
NAME_POOL = ["a", "a-b_1", "A9", "-", "", "a b", "a\n", "a\n\n", "\n", "a.b", "a/b", ":a", "//a:b",
             "é", " a", "a\r", "a\x00", "a\n-", 5, None, ["a"]]


def _load_from_cond_file():
    from conductor.task_types import raw_task_types
    import conductor.errors as errors

    a = Acc()
    for type_name, raw in raw_task_types.items():
        schema, defaults = raw._schema, raw._defaults
        keys = list(schema.keys())
        base = {}
        for k in keys:
            if k == "name" or k in defaults:
                continue
            base[k] = VALUE_POOL[_canonical_index(schema[k]) - 1]
        other_keys = [k for k in keys if k != "name"]
        variants = [("valid", dict(base))]
        for k in other_keys:
            if k in base:
                v = dict(base)
                del v[k]
                variants.append(("missing " + k, v))
            for wrong in (3, None, ["a", 1]):
                if not o_has_type(wrong, schema[k]):
                    v = dict(base)
                    v[k] = wrong
                    variants.append(("wrong type for " + k, v))
                    break
            v = dict(base)
            v[k] = VALUE_POOL[_canonical_index(schema[k]) - 1]
            variants.append(("explicit " + k, v))
        variants.append(("unknown key", dict(base, **{UNKNOWN_KEY: 1})))
        for label, kwargs in variants:
            for name in NAME_POOL + [ABSENT]:
                call = dict(kwargs)
                if name != ABSENT:
                    call["name"] = name
                merged = dict(defaults)
                merged.update(call)
                causes = o_causes(schema, merged)
                name_ok = g_name(merged.get("name"))
                exp_accept = not causes and name_ok
                inp = {"task_type": type_name, "kwargs": call, "variant": label}
                a.ev += 1
                if not causes:
                    a.nt += 1
                    if name_ok:
                        a.sample(inp)
                try:
                    res = raw.load_from_cond_file(**call)
                    got = "accept"
                except errors.ConductorError as ex:
                    got = type(ex).__name__
                except Exception as ex:
                    got = "bare " + type(ex).__name__
                if (got == "accept") != exp_accept:
                    if got == "accept":
                        nm = merged.get("name")
                        if not causes and type(nm) is str and nm.endswith("\n") and g_name(nm[:-1]):
                            cls = "trailing-newline-accepted"
                        elif not causes:
                            cls = "invalid-name-accepted"
                        else:
                            cls = "malformed-arguments-accepted"
                    else:
                        cls = "bare-python-exception" if got.startswith("bare ") else "well-formed-task-rejected"
                    a.fail("name_grammar", cls, inp, "accept" if exp_accept else
                           (sorted(causes) or "InvalidTaskName"), got)
                elif got == "accept":
                    exp_res = dict(merged, _full_type=raw._full_type)
                    if res != exp_res:
                        a.fail("result_is_defaults_plus_kwargs", "wrong-raw-task", inp, exp_res, res)
                elif got.startswith("bare "):
                    a.fail("clean_rejection", "bare-python-exception", inp, "ConductorError", got)
                elif not causes and got != "InvalidTaskName":
                    a.fail("rejection_cause", "rejection-names-wrong-cause", inp, "InvalidTaskName", got)
                elif causes and got not in causes:
                    a.fail("rejection_cause", "rejection-names-wrong-cause", inp, sorted(causes), got)
    return a


# --------------------------------------------------------------------------- from_raw
class _Obj:
    def __repr__(self):
        return "<object>"


def _from_raw(tier):
    from conductor.task_identifier import TaskIdentifier
    from conductor.utils.run_arguments import RunArguments
    from conductor.utils.run_options import RunOptions
    import conductor.errors as errors

    a = Acc()
    ident = TaskIdentifier(pathlib.Path("x"), "t")
    values = ["s", "", True, 1, 0.5, None, [], {}, (1,), b"x", _Obj()]
    prim = lambda v: type(v) in (str, bool, int, float)
    for k in range(0, (3 if tier == "quick" else 4) + 1):
        for vs in itertools.product(values, repeat=k):
            exp = all(prim(v) for v in vs)
            inp = {"fn": "RunArguments.from_raw", "raw_args": [repr(v) for v in vs]}
            a.ev += 1
            if sum(1 for v in vs if not prim(v)) <= 1 and k > 0:
                a.nt += 1
                a.sample(inp)
            try:
                res = RunArguments.from_raw(ident, list(vs))
                got = "accept"
            except errors.RunArgumentsNonPrimitiveValue:
                got = "RunArgumentsNonPrimitiveValue"
            except Exception as ex:
                got = "other " + type(ex).__name__
            if (got == "accept") != exp or got.startswith("other"):
                cls = "non-primitive-argument-accepted" if got == "accept" else (
                    "primitive-arguments-rejected" if exp else "rejected-with-wrong-error")
                a.fail("args_primitives", cls, inp, "accept" if exp else "RunArgumentsNonPrimitiveValue", got)
            elif got == "accept" and (res.empty() != (k == 0)):
                a.fail("args_kept", "arguments-not-kept", inp, k == 0, res.empty())
    keys = ["k", "", 1, None, ("a",), True, 0.5]
    for k in range(0, 3):
        for ks in itertools.permutations(keys, k):
            if len(set(ks)) != len(ks) or (1 in ks and True in ks):
                continue    # 1 == True would collapse into one dict key
            for vs in itertools.product(values, repeat=k):
                raw = dict(zip(ks, vs))
                bad_key = any(type(x) is not str for x in ks)
                bad_val = any(not prim(v) for v in vs)
                exp = not bad_key and not bad_val
                allowed = set()
                if bad_key:
                    allowed.add("RunOptionsNonStringKey")
                if bad_val:
                    allowed.add("RunOptionsNonPrimitiveValue")
                inp = {"fn": "RunOptions.from_raw", "raw_options": [[repr(x), repr(v)] for x, v in zip(ks, vs)]}
                a.ev += 1
                if k > 0 and (int(bad_key) + int(bad_val)) <= 1:
                    a.nt += 1
                    a.sample(inp, cap=6)
                try:
                    res = RunOptions.from_raw(ident, raw)
                    got = "accept"
                except errors.ConductorError as ex:
                    got = type(ex).__name__
                except Exception as ex:
                    got = "other " + type(ex).__name__
                if (got == "accept") != exp:
                    cls = ("non-string-option-key-accepted" if bad_key else "non-primitive-option-accepted") \
                        if got == "accept" else "primitive-options-rejected"
                    a.fail("options_primitives", cls, inp, "accept" if exp else sorted(allowed), got)
                elif got != "accept" and got not in allowed:
                    a.fail("options_error", "rejected-with-wrong-error", inp, sorted(allowed), got)
                elif got == "accept" and (res.empty() != (k == 0)):
                    a.fail("options_kept", "options-not-kept", inp, k == 0, res.empty())
    return a


# --------------------------------------------------------------------------- Combine
def _combine_dups(tier):
    from conductor.task_identifier import TaskIdentifier
    from conductor.task_types.combine import Combine
    import conductor.errors as errors

    a = Acc()
    pool = [((), "a"), (("x",), "a"), ((), "b"), (("x",), "b"), (("x", "y"), "c")]
    # the combine itself lives in the root package, in a package that also holds some of the dependencies, or elsewhere
    for comb_path in [("z",), (), ("x",)]:
      for k in range(0, (3 if tier == "quick" else 4) + 1):
        for deps in itertools.product(pool, repeat=k):
            names = [n for _, n in deps]
            exp_dup = len(set(names)) != len(names)
            inp = {"combine": "//" + "/".join(comb_path) + ":comb", "deps": ["//" + "/".join(p) + ":" + n for p, n in deps]}
            a.ev += 1
            if exp_dup and len(set(deps)) == len(deps):
                a.nt += 1
                a.sample(inp)
            ids = [TaskIdentifier(pathlib.Path(*p), n) for p, n in deps]
            try:
                c = Combine(identifier=TaskIdentifier(pathlib.Path(*comb_path), "comb"),
                            cond_file_path=pathlib.Path("/R", *comb_path, "COND"), deps=ids)
                got = "accept"
            except errors.CombineDuplicateDepName:
                got = "CombineDuplicateDepName"
            except Exception as ex:
                got = "other " + type(ex).__name__
            exp = "CombineDuplicateDepName" if exp_dup else "accept"
            if got != exp:
                cls = "duplicate-dep-name-accepted" if got == "accept" else (
                    "distinct-dep-names-rejected" if exp == "accept" else "rejected-with-wrong-error")
                a.fail("duplicate_dep_names", cls, inp, exp, got)
            elif got == "accept" and list(c.deps) != ids:
                a.fail("deps_kept", "deps-not-kept", inp, ids, list(c.deps))
    return a


# --------------------------------------------------------------------------- parse_cond_file
def _cond_cases():
    """(label, COND body (str or bytes), expectation) ; expectation 'ok:<sorted task names>' or 'error'."""
    ok = lambda *names: "ok:" + ",".join(sorted(names))
    cases = [
        ("empty file", "", ok()),
        ("one task", "run_command(name='a', run='true')\n", ok("a")),
        ("python in COND", "for i in range(2):\n    run_experiment(name='e%d' % i, run='true', args=[i])\n", ok("e0", "e1")),
        ("all task kinds", "run_command(name='a', run='true')\nrun_experiment(name='b', run='true', deps=[':a'])\n"
                           "group(name='g', deps=[':a', ':b'])\ncombine(name='c', deps=[':b'])\n", ok("a", "b", "c", "g")),
        ("valid include", "include('vars.cond')\nrun_command(name=TASK_NAME, run='true')\n", ok("from-include")),
        ("valid include twice", "include('vars.cond')\ninclude('vars.cond')\nrun_command(name=TASK_NAME, run='true')\n",
         ok("from-include")),
        ("valid include by project path", "include('//inc/vars2.cond')\nrun_command(name=OTHER, run='true')\n", ok("other")),
        ("valid group", "run_experiment_group(name='g', run='true', experiments=[ExperimentInstance(name='g-1')])\n",
         ok("g", "g-1")),
        ("ZeroDivisionError", "1/0\n", "error"),
        ("NameError", "undefined_name\n", "error"),
        ("NameError in call", "run_command(name=nope, run='true')\n", "error"),
        ("SyntaxError", "def (:\n", "error"),
        ("IndentationError", "if True:\nrun_command(name='a', run='true')\n", "error"),
        ("null byte in source", "x = 1\x00\n", "error"),
        ("not UTF-8", b"x = '\xff\xfe'\n", "error"),
        ("TypeError positional", "run_command('a', 'true')\n", "error"),
        ("unknown parameter", "run_command(name='a', run='true', bogus=1)\n", "error"),
        ("missing parameter", "run_command(name='a')\n", "error"),
        ("wrong parameter type", "run_command(name='a', run=5)\n", "error"),
        ("wrong element type", "run_command(name='a', run='true', deps=[1])\n", "error"),
        ("invalid task name", "run_command(name='a b', run='true')\n", "error"),
        ("duplicate task name", "run_command(name='a', run='true')\nrun_experiment(name='a', run='true')\n", "error"),
        ("include missing", "include('missing.cond')\n", "error"),
        ("include non-.cond", "include('notes.txt')\n", "error"),
        ("include outside project (relative)", "include('%(up)s/outside.cond')\n", "error"),
        ("include outside project (// path)", "include('//../outside.cond')\n", "error"),
        ("include symlink to outside", "include('link_out.cond')\n", "error"),
        ("included file defines a task", "include('defines_task.cond')\n", "error"),
        ("included file includes", "include('includes_other.cond')\n", "error"),
        ("included file raises ZeroDivisionError", "include('raises_zero.cond')\n", "error"),
        ("included file raises ValueError", "include('raises_value.cond')\n", "error"),
        ("included file has SyntaxError", "include('syntax.cond')\n", "error"),
        ("included file not UTF-8", "include('binary.cond')\n", "error"),
        ("include a directory", "include('dir.cond')\n", "error"),
        ("include(5)", "include(5)\n", "error"),
        ("include()", "include()\n", "error"),
        ("raise KeyError", "raise KeyError('k')\n", "error"),
        ("raise RuntimeError", "raise RuntimeError('boom')\n", "error"),
        ("raise Exception()", "raise Exception()\n", "error"),
        ("IndexError", "[][1]\n", "error"),
        ("AttributeError", "None.foo\n", "error"),
        ("ValueError", "int('x')\n", "error"),
        ("ImportError", "import nonexistent_module_xyz_verif\n", "error"),
        ("AssertionError", "assert False, 'no'\n", "error"),
        ("RecursionError", "def f():\n    return f()\nf()\n", "error"),
        ("StopIteration", "next(iter([]))\n", "error"),
        ("OSError", "open('/nonexistent-verif/file')\n", "error"),
        ("error inside function", "def mk(n):\n    run_command(name=n, run=1)\nmk('a')\n", "error"),
        ("error after a valid task", "run_command(name='a', run='true')\n1/0\n", "error"),
        ("group: non-instance element", "run_experiment_group(name='g', run='true', experiments=['x'])\n", "error"),
        ("group: duplicate instance", "run_experiment_group(name='g', run='true', experiments=["
                                      "ExperimentInstance(name='e'), ExperimentInstance(name='e')])\n", "error"),
        ("group: experiments not iterable", "run_experiment_group(name='g', run='true', experiments=5)\n", "error"),
        ("group: missing run", "run_experiment_group(name='g', experiments=[])\n", "error"),
        ("ExperimentInstance()", "ExperimentInstance()\n", "error"),
        ("non-primitive arg is a parse-time ok", "run_command(name='a', run='true', args=[[1]])\n", ok("a")),
    ]
    return cases


def _write(path, content):
    path.parent.mkdir(parents=True, exist_ok=True)
    if isinstance(content, bytes):
        path.write_bytes(content)
    else:
        path.write_text(content, encoding="UTF-8")


def _make_include_files(d, outside_dir):
    _write(d / "vars.cond", "TASK_NAME = 'from-include'\n")
    _write(d / "notes.txt", "X = 1\n")
    _write(d / "defines_task.cond", "run_command(name='x', run='true')\n")
    _write(d / "other.cond", "Y = 2\n")
    _write(d / "includes_other.cond", "include('other.cond')\n")
    _write(d / "raises_zero.cond", "Z = 1/0\n")
    _write(d / "raises_value.cond", "raise ValueError('bad value')\n")
    _write(d / "syntax.cond", "def (:\n")
    _write(d / "binary.cond", b"X = '\xff\xfe'\n")
    (d / "dir.cond").mkdir(parents=True, exist_ok=True)
    link = d / "link_out.cond"
    if not link.is_symlink():
        link.symlink_to(outside_dir / "outside.cond")


def _parse_cond_file():
    from conductor.parsing.task_loader import TaskLoader
    import conductor.errors as errors

    a = Acc()
    scratch = pathlib.Path(_mkscratch()).resolve()
    try:
        root = scratch / "proj"
        root.mkdir()
        _write(root / "cond_config.toml", "")
        _write(scratch / "outside.cond", "OUT = 1\n")
        _write(root / "inc" / "vars2.cond", "OTHER = 'other'\n")
        placements = [("root", root, ".."), ("sub", root / "sub" / "deep", "../../..")]
        for _, d, _up in placements:
            _make_include_files(d, scratch)
        shared = TaskLoader(project_root=root)
        valid_path = root / "valid" / "COND"
        _write(valid_path, "run_command(name='still-fine', run='true')\n")

        def outcome(loader, path):
            try:
                tasks = loader.parse_cond_file(path)
                return "ok:" + ",".join(sorted(tasks.keys())), None
            except errors.ConductorError as ex:
                return "error", ex
            except BaseException as ex:  # noqa: a bare Python exception escaping is the violation
                if isinstance(ex, (KeyboardInterrupt, SystemExit)):
                    raise
                return "bare " + type(ex).__name__, ex

        for label, body, expect in _cond_cases():
            for pname, d, up in placements:
                cond = d / "COND"
                text = body if isinstance(body, bytes) else body % {"up": up} if "%(up)s" in body else body
                _write(cond, text)
                for loader_kind in ("fresh", "shared"):
                    loader = TaskLoader(project_root=root) if loader_kind == "fresh" else shared
                    inp = {"case": label, "cond_file": "//" + str(cond.relative_to(root)),
                           "body": text if isinstance(text, str) else repr(text), "loader": loader_kind}
                    got, ex = outcome(loader, cond)
                    a.ev += 1
                    if expect == "error":
                        a.nt += 1
                    a.sample(inp) if label in ("ZeroDivisionError", "included file defines a task") else None
                    if got.startswith("bare "):
                        a.fail("errors_are_conductor_errors", "bare-python-exception-escapes", inp,
                               "ConductorError with file context" if expect == "error" else expect,
                               "%s: %s" % (type(ex).__name__, ex))
                    elif expect == "error" and got != "error":
                        a.fail("malformed_rejected", "malformed-cond-file-accepted", inp, "ConductorError", got)
                    elif expect != "error" and got != expect:
                        a.fail("well_formed_accepted", "well-formed-cond-file-rejected" if got == "error"
                               else "wrong-task-table", inp, expect,
                               got if ex is None else "%s: %s" % (type(ex).__name__, ex.printable_message()))
                    elif got == "error":
                        fc = getattr(ex, "file_context", None)
                        if fc is None or not isinstance(fc.file_path, str) or not fc.file_path.startswith("//"):
                            a.fail("file_context_set", "conductor-error-without-file-context", inp,
                                   "file_context naming a //-path", fc)
                        else:
                            try:
                                ex.printable_message()
                            except Exception as ex2:
                                a.fail("printable", "error-message-not-printable", inp, "printable message",
                                       type(ex2).__name__)
                    if loader_kind == "shared":
                        # the loader must be reusable after any outcome
                        got2, ex2 = outcome(shared, valid_path)
                        a.ev += 1
                        if got2 != "ok:still-fine":
                            a.fail("loader_reusable", "loader-state-leaks-after-error", inp, "ok:still-fine",
                                   got2 if ex2 is None else "%s: %s" % (type(ex2).__name__, ex2))
        # a COND file that does not exist / is a directory
        for label, path in (("missing COND file", root / "nowhere" / "COND"),
                            ("COND is a directory", root / "sub" / "deep" / "dir.cond")):
            got, ex = outcome(TaskLoader(project_root=root), path)
            inp = {"case": label, "cond_file": "//" + str(path.relative_to(root))}
            a.ev += 1
            a.nt += 1
            if got.startswith("bare "):
                a.fail("errors_are_conductor_errors", "bare-python-exception-escapes", inp, "ConductorError",
                       "%s: %s" % (type(ex).__name__, ex))
            elif got != "error":
                a.fail("malformed_rejected", "malformed-cond-file-accepted", inp, "ConductorError", got)
            elif getattr(ex, "file_context", None) is None:
                a.fail("file_context_set", "conductor-error-without-file-context", inp, "file_context", None)
    finally:
        shutil.rmtree(scratch, ignore_errors=True)
    return a


# --------------------------------------------------------------------------- C19
GROUP_NAME = "g"
RUN = "./run.sh --x"
# element kinds: (python source of the list element, instance spec or None when not an ExperimentInstance)
ELEMENTS = [
    ("ExperimentInstance(name='e1')", {"name": "e1", "args": [], "options": {}, "parallelizable": False}),
    ("ExperimentInstance(name='e2', args=[1, 'x', True], options={'t': 2, 'f': 0.5}, parallelizable=True)",
     {"name": "e2", "args": [1, "x", True], "options": {"t": 2, "f": 0.5}, "parallelizable": True}),
    ("ExperimentInstance('e1', ['other'])", {"name": "e1", "args": ["other"], "options": {}, "parallelizable": False}),
    ("ExperimentInstance(name='g')", {"name": "g", "args": [], "options": {}, "parallelizable": False}),
    ("ExperimentInstance(name='e5', args='notalist')", {"name": "e5", "args": "notalist", "options": {},
                                                        "parallelizable": False}),
    ("ExperimentInstance(name='bad name', options={'o': 'v'})", {"name": "bad name", "args": [], "options": {"o": "v"},
                                                                 "parallelizable": False}),
    ("ExperimentInstance(name='e3', options={'o': 'v'})", {"name": "e3", "args": [], "options": {"o": "v"},
                                                           "parallelizable": False}),
    # explicit None / non-list values are handed to run_experiment unchanged: rejected exactly when the expansion is
    ("ExperimentInstance(name='e6', options=None)", {"name": "e6", "args": [], "options": None, "parallelizable": False}),
    ("ExperimentInstance(name='e7', args=None)", {"name": "e7", "args": None, "options": {}, "parallelizable": False}),
    ("('e9', [], {}, False)", None),
    ("'e9'", None),
]
# how the instance sequence is handed over: `experiments` is documented as an iterable, so a one-shot iterable counts
SEQ_FORMS = [("list", "[%s]"), ("generator", "(e_ for e_ in [%s])")]
DEPS_VARIANTS = [("omitted", None, None), ("None", "None", None), ("[]", "[]", []), ("[':x']", "[':x']", [":x"]),
                 ("['//a/b:y', ':x']", "['//a/b:y', ':x']", ["//a/b:y", ":x"])]
CHAIN_VARIANTS = [("omitted", None, False), ("False", "False", False), ("True", "True", True)]


def _group_source(elems, chain_src, deps_src, seq_form="[%s]"):
    parts = ["name=%r" % GROUP_NAME, "run=%r" % RUN, "experiments=" + seq_form % ", ".join(e[0] for e in elems)]
    if chain_src is not None:
        parts.append("chain_experiments=%s" % chain_src)
    if deps_src is not None:
        parts.append("deps=%s" % deps_src)
    return "run_experiment_group(%s)\n" % ", ".join(parts)


def _expansion_source(elems, chain, deps):
    """The documented expansion: one run_experiment per instance with the shared run and deps
    (+ the previous instance when chained), then a combine over all instances."""
    lines = []
    shared = list(deps) if deps is not None else []
    prev = None
    for _, spec in elems:
        d = list(shared)
        if chain and prev is not None:
            d.append(":" + prev)
        lines.append("run_experiment(name=%r, run=%r, parallelizable=%r, args=%r, options=%r, deps=%r)"
                     % (spec["name"], RUN, spec["parallelizable"], spec["args"], spec["options"], d))
        prev = spec["name"]
    lines.append("combine(name=%r, deps=%r)" % (GROUP_NAME, [":" + spec["name"] for _, spec in elems]))
    return "\n".join(lines) + "\n"


@_safe
def _group_worker(job):
    shard, n_shards, max_len = job
    from conductor.parsing.task_loader import TaskLoader
    import conductor.errors as errors

    a = Acc()
    scratch = pathlib.Path(_mkscratch()).resolve()
    try:
        root = scratch / "proj"
        (root / "grp").mkdir(parents=True)
        (root / "exp").mkdir(parents=True)
        _write(root / "cond_config.toml", "")
        n = -1
        for k in range(0, max_len + 1):
            for elems in itertools.product(ELEMENTS, repeat=k):
                for (chain_label, chain_src, chain), (deps_label, deps_src, deps), (_form_label, seq_form) in itertools.product(
                        CHAIN_VARIANTS, DEPS_VARIANTS, SEQ_FORMS if k >= 1 else SEQ_FORMS[:1]):
                    n += 1
                    if n % n_shards != shard:
                        continue
                    src_group = _group_source(elems, chain_src, deps_src, seq_form)
                    inp = {"cond_file": src_group}
                    all_instances = all(spec is not None for _, spec in elems)

                    def parse(rel, text):
                        _write(root / rel / "COND", text)
                        try:
                            tasks = TaskLoader(project_root=root).parse_cond_file(root / rel / "COND")
                        except errors.ConductorError as ex:
                            return "rejected", type(ex).__name__
                        except Exception as ex:
                            return "bare", type(ex).__name__
                        clean = {}
                        for name, raw in tasks.items():
                            raw = dict(raw)
                            raw.pop("cond_file_path", None)
                            clean[name] = raw
                        return "ok", clean

                    g_kind, g_val = parse("grp", src_group)
                    a.ev += 1
                    if all_instances and k >= 2:
                        a.nt += 1
                        a.sample(inp)
                    if g_kind == "bare":
                        a.fail("clean_rejection", "bare-python-exception-escapes", inp, "tasks or ConductorError", g_val)
                        continue
                    if not all_instances:
                        if g_kind != "rejected":
                            a.fail("non_instance_rejected", "non-ExperimentInstance-accepted", inp,
                                   "rejected", sorted(g_val))
                        continue
                    src_exp = _expansion_source(elems, chain, deps)
                    inp["documented_expansion"] = src_exp
                    e_kind, e_val = parse("exp", src_exp)
                    if e_kind == "bare":
                        raise RuntimeError("harness: explicit expansion escaped with %s" % e_val)
                    if g_kind != e_kind:
                        cls = "group-accepts-what-expansion-rejects" if g_kind == "ok" else \
                            "group-rejects-what-expansion-accepts"
                        a.fail("both_rejected_or_both_accepted", cls, inp, "%s (%s)" % (e_kind, e_val
                               if e_kind != "ok" else sorted(e_val)),
                               "%s (%s)" % (g_kind, g_val if g_kind != "ok" else sorted(g_val)))
                    elif g_kind == "ok" and g_val != e_val:
                        diff = sorted(set(g_val) ^ set(e_val))
                        if diff:
                            cls = "different-task-set"
                        else:
                            bad = [nm for nm in g_val if g_val[nm] != e_val[nm]]
                            keys = sorted({key for nm in bad for key in set(g_val[nm]) | set(e_val[nm])
                                           if g_val[nm].get(key) != e_val[nm].get(key)})
                            cls = "different-" + "-".join(keys)
                        a.fail("same_raw_tasks", cls, inp, e_val, g_val)
    finally:
        shutil.rmtree(scratch, ignore_errors=True)
    return a


# --------------------------------------------------------------------------- driver
@_safe
def _misc_worker(job):
    kind, tier = job
    t0 = time.time()
    if kind == "load":
        acc = _load_from_cond_file()
    elif kind == "from_raw":
        acc = _from_raw(tier)
    elif kind == "combine":
        acc = _combine_dups(tier)
    elif kind == "parse":
        acc = _parse_cond_file()
    else:
        raise RuntimeError("harness: unknown job " + kind)
    return kind, acc, time.time() - t0


def run(tier, seed):
    from conductor.task_types import raw_task_types
    quick = tier == "quick"
    n_proc = min(16, os.cpu_count() or 1)
    mp = multiprocessing.get_context("fork")

    vjobs = []
    n_states = len(VALUE_POOL) + 1
    for type_name, raw in raw_task_types.items():
        n_keys = len(raw._schema)
        if quick and n_keys > 3:
            vjobs.extend((type_name, "quick", (i, 8)) for i in range(8))
        else:
            depth = min(2, max(0, n_keys - 1))
            for fixed in itertools.product(range(n_states), repeat=depth):
                vjobs.append((type_name, "full", fixed))
    max_len = 3 if quick else 4
    n_group_shards = 32 if quick else 64
    gjobs = [(i, n_group_shards, max_len) for i in range(n_group_shards)]

    val, grp = Acc(), Acc()
    misc = {}
    with mp.Pool(processes=n_proc) as pool:
        t0 = time.time()
        misc_job = pool.map_async(_misc_worker, [(k, tier) for k in ("parse", "load", "from_raw", "combine")], chunksize=1)
        done = {}
        grp_job = pool.map_async(_group_worker, gjobs, chunksize=1,
                                 callback=lambda _r: done.setdefault("grp", time.time() - t0))
        val_job = pool.map_async(_validator_worker, vjobs, chunksize=1,
                                 callback=lambda _r: done.setdefault("val", time.time() - t0))
        for acc in val_job.get(_POOL_TIMEOUT_S):
            val.merge(acc)
        for acc in grp_job.get(_POOL_TIMEOUT_S):
            grp.merge(acc)
        wall_val = done.get("val", time.time() - t0)
        wall_grp = done.get("grp", time.time() - t0)
        for kind, acc, wall in misc_job.get(_POOL_TIMEOUT_S):
            misc[kind] = (acc, wall)

    type_names = list(raw_task_types.keys())
    if quick:
        val_scope = ("schemas of %s read from the real module; per key: absent or one of 9 pool values %s; schemas "
                     "with <= 3 keys: full product; larger schemas: every subset of keys present with a well-typed "
                     "value, plus every assignment in which at most 3 keys deviate from the well-typed full "
                     "assignment; all x {no unknown key, one unknown key}"
                     % (type_names, json.dumps(VALUE_POOL)))
    else:
        val_scope = ("schemas of %s read from the real module; per key: absent or one of 9 pool values %s; the full "
                     "product over all keys x {no unknown key, one unknown key}" % (type_names, json.dumps(VALUE_POOL)))
    return [
        val.result("C15.validator.iff_schema", "C15", "parsing/validation.py::generate_type_validator",
                   val_scope, True,
                   "distinct (schema, argument dict); non-trivial = accepted by the schema or rejected for exactly "
                   "one kind of cause", wall_val),
        misc["load"][0].result("C15.load_from_cond_file.name_grammar", ["C15", "C20"],
                               "task_types/raw.py::RawTaskType.load_from_cond_file",
                               "every raw task type x {valid kwargs, each key missing / ill-typed / explicit, unknown "
                               "key} x %d names (valid, empty, space, newline variants, '.', '/', ':', non-ASCII, CR, "
                               "NUL, non-str) and name omitted" % len(NAME_POOL), True,
                               "distinct (type, kwargs); non-trivial = the schema accepts, so the name decides",
                               misc["load"][1]),
        misc["from_raw"][0].result("C15.from_raw.primitives", "C15",
                                   "utils/run_arguments.py::RunArguments.from_raw + utils/run_options.py::RunOptions.from_raw",
                                   "argument lists of length <= %d over 11 values (str, '', bool, int, float, None, list, "
                                   "dict, tuple, bytes, object); option dicts with <= 2 entries, keys over 7 candidates "
                                   "(str, '', int, None, tuple, bool, float) x the same values"
                                   % (3 if quick else 4), True,
                                   "distinct raw lists / dicts; non-trivial = non-empty with at most one kind of defect",
                                   misc["from_raw"][1]),
        misc["combine"][0].result("C15.combine.duplicate_dep_names", ["C15", "C18"],
                                  "task_types/combine.py::Combine.__init__",
                                  "all dependency lists of length <= %d over 5 identifiers (same names in different "
                                  "paths, repeated identifiers)" % (3 if quick else 4), True,
                                  "distinct dependency lists; non-trivial = two different identifiers share a name",
                                  misc["combine"][1]),
        misc["parse"][0].result("C15.parse_cond_file.errors_are_conductor_errors", "C15",
                                "parsing/task_loader.py::TaskLoader.parse_cond_file,_run_include",
                                "%d COND bodies (valid ones, Python errors of 20 kinds, task-definition errors, include "
                                "errors, group errors) x placement {//COND, //sub/deep/COND} x {fresh loader, shared "
                                "loader followed by a valid file}; + missing COND file, COND that is a directory"
                                % len(_cond_cases()), True,
                                "distinct (body, placement, loader); non-trivial = the body must be rejected",
                                misc["parse"][1]),
        grp.result("C19.group.expansion_equivalence", ["C19", "C04", "C07", "C10"],
                   "task_types/stdlib/run_experiment_group.py::run_experiment_group (through TaskLoader.parse_cond_file)",
                   "all experiment lists of length 0..%d over %d element kinds (default instance, two instances with "
                   "args/options/parallelizable, duplicate name, name equal to the group's, ill-typed args, invalid "
                   "name, explicit None for options / args, plain tuple, string) x sequence given as a list or as a one-shot generator x chain_experiments {omitted, False, True} x deps {omitted, None, [], "
                   "[':x'], ['//a/b:y', ':x']}; compared with the explicit expansion parsed by the same loader"
                   % (max_len, len(ELEMENTS)), True,
                   "distinct COND files; non-trivial = >= 2 elements, all of them ExperimentInstances", wall_grp),
    ]


if __name__ == "__main__":
    from runtime.common import main
    main(run)
