"""Shared enumeration helpers, independent graph oracles and real-object builders.

Everything in the *oracle* section is written from the mathematical definitions
(reachability, transitive closure, cycle, root) and never calls into
`conductor`.  The *builders* section constructs real `conductor` objects
(`TaskIndex`, `VersionIndex`) without parsing COND files and a stub `Context`.

Graph representation used everywhere in /verif/runtime:

    deps : tuple[tuple[int, ...], ...]
        deps[i] is the dependency list of node i **in listing order**.  An
        entry may be >= len(deps): that is a name that is not defined
        (a dangling dependency).

Node i is the task `//:t<i>` unless a module says otherwise.
"""
import copy
import functools
import itertools
import json
import os
import pathlib
import sys

# --------------------------------------------------------------------------
# errors
# --------------------------------------------------------------------------


class HarnessError(Exception):
    """A problem of the harness itself.  Never converted into a failure."""


_HARNESS_DIR = os.path.dirname(os.path.abspath(__file__))


def raised_by_harness(exc):
    """True iff the innermost frame of `exc`'s traceback is harness code (or the
    exception is a HarnessError): such an exception must crash the module, it is
    not an observation about the code under test."""
    if isinstance(exc, HarnessError):
        return True
    tb = exc.__traceback__
    last = None
    while tb is not None:
        last = tb
        tb = tb.tb_next
    if last is None:
        return True
    fname = os.path.abspath(last.tb_frame.f_code.co_filename)
    return fname.startswith(_HARNESS_DIR + os.sep)


class NonTermination(BaseException):
    """Raised by the watchdog inside a real call that used up its CPU budget."""


class Watchdog:
    """CPU-time guard for calls into the code under test (a broken variant may
    loop forever).  `call` returns (value, exception); a budget overrun is
    returned as a `NonTermination` instance, to be reported as a failure with
    class "non-termination".  After `max_trips` overruns `exhausted` is True and
    the caller must stop enumerating (and report exhaustive=False)."""

    def __init__(self, cpu_seconds=1.0, max_trips=2):
        import signal

        self._signal = signal
        self.cpu_seconds = cpu_seconds
        self.max_trips = max_trips
        self.trips = 0
        signal.signal(signal.SIGVTALRM, self._on_alarm)

    @staticmethod
    def _on_alarm(signum, frame):
        raise NonTermination("CPU budget of the watchdog exceeded")

    @property
    def exhausted(self):
        return self.trips >= self.max_trips

    def arm(self):
        self._signal.setitimer(self._signal.ITIMER_VIRTUAL, self.cpu_seconds)

    def disarm(self):
        self._signal.setitimer(self._signal.ITIMER_VIRTUAL, 0)

    def call(self, fn, *args, **kwargs):
        self.arm()
        try:
            return fn(*args, **kwargs), None
        except NonTermination as nt:
            self.trips += 1
            return None, nt
        except Exception as ex:  # noqa: BLE001 -- observation about the code under test
            if raised_by_harness(ex):
                raise
            return None, ex
        finally:
            self.disarm()


# --------------------------------------------------------------------------
# enumeration
# --------------------------------------------------------------------------


def ordered_subsets(items):
    """Every listing order of every subset of `items` (tuples, deterministic)."""
    items = tuple(items)
    out = []
    for k in range(len(items) + 1):
        for comb in itertools.combinations(items, k):
            for perm in itertools.permutations(comb):
                out.append(perm)
    return out


def sequences_upto(tokens, max_len):
    """Every sequence (repeats allowed) over `tokens` of length <= max_len."""
    out = []
    for k in range(max_len + 1):
        out.extend(itertools.product(tokens, repeat=k))
    return out


def listing_orders(adj):
    """adj: sequence of dependency *sets* (any iterable).  Yields every `deps`
    (tuple of tuples) obtained by choosing a listing order for each node."""
    per_node = [list(itertools.permutations(sorted(a))) for a in adj]
    for choice in itertools.product(*per_node):
        yield tuple(choice)


def forward_dags(n):
    """All DAGs on nodes 0..n-1 whose edges go from a smaller to a larger index
    (every DAG is isomorphic to one of these: take a topological numbering).
    Yields adjacency as a tuple of sorted tuples.  2**(n(n-1)/2) graphs."""
    pairs = [(i, j) for i in range(n) for j in range(i + 1, n)]
    for mask in range(1 << len(pairs)):
        adj = [[] for _ in range(n)]
        for b, (i, j) in enumerate(pairs):
            if mask >> b & 1:
                adj[i].append(j)
        yield tuple(tuple(a) for a in adj)


def labelled_digraphs(n, self_loops=True):
    """All labelled digraphs on 0..n-1 (adjacency as tuple of sorted tuples)."""
    pairs = [(i, j) for i in range(n) for j in range(n) if self_loops or i != j]
    for mask in range(1 << len(pairs)):
        adj = [[] for _ in range(n)]
        for b, (i, j) in enumerate(pairs):
            if mask >> b & 1:
                adj[i].append(j)
        yield tuple(tuple(a) for a in adj)


@functools.lru_cache(maxsize=None)
def labelled_dags(n):
    """All labelled DAGs on 0..n-1 (1, 3, 25, 543, 29281 for n = 1..5): the images
    of the forward DAGs under every relabelling, without repetition, sorted."""
    seen = set()
    fwd = list(forward_dags(n))
    for perm in itertools.permutations(range(n)):
        for adj in fwd:
            img = [None] * n
            for i in range(n):
                img[perm[i]] = tuple(sorted(perm[j] for j in adj[i]))
            seen.add(tuple(img))
    return tuple(sorted(seen))


def forward_dag_orders(max_n, min_n=1):
    """[(deps)] for all forward DAGs with min_n..max_n nodes x all listing orders."""
    out = []
    for n in range(min_n, max_n + 1):
        for adj in forward_dags(n):
            out.extend(listing_orders(adj))
    return out


def labelled_dag_orders(max_n, min_n=1):
    out = []
    for n in range(min_n, max_n + 1):
        for adj in labelled_dags(n):
            out.extend(listing_orders(adj))
    return out


# --------------------------------------------------------------------------
# deterministic sharding / multiprocessing
# --------------------------------------------------------------------------


def n_processes():
    return min(16, os.cpu_count() or 1)


def shard_range(total, shard, nshards):
    """Indices of shard `shard`: a strided slice, so that neighbouring (similar
    cost) items are spread over all shards.  Deterministic."""
    return range(shard, total, nshards)


def _guarded(packed):
    """Runs in the child.  Exceptions are returned as text: several conductor
    exception classes cannot be unpickled (keyword-only constructors), which
    would hang `Pool.map` in the parent instead of failing."""
    worker, arg = packed
    try:
        return ("ok", worker(arg))
    except BaseException:  # noqa: BLE001
        import traceback

        return ("err", traceback.format_exc())


def run_sharded(worker, common_payload, nshards=None, processes=None):
    """Run `worker((shard, nshards, common_payload))` for every shard in a Pool
    and return the list of results in shard order.  `worker` must be a module
    level function.  A worker exception becomes a HarnessError in the parent
    (module crash, exit 3) -- never a check failure."""
    import multiprocessing

    processes = processes or n_processes()
    nshards = nshards or processes * 4
    args = [(worker, (s, nshards, common_payload)) for s in range(nshards)]
    if processes == 1:
        res = [_guarded(a) for a in args]
    else:
        ctx = multiprocessing.get_context("fork")
        with ctx.Pool(processes=processes) as pool:
            res = pool.map(_guarded, args, chunksize=1)
    for tag, val in res:
        if tag != "ok":
            raise HarnessError("worker crashed:\n" + val)
    return [val for _, val in res]


# --------------------------------------------------------------------------
# independent oracles (pure; `defined` = number of defined nodes)
# --------------------------------------------------------------------------


def _n_defined(deps, defined):
    return len(deps) if defined is None else defined


def succ_sets(deps, defined=None):
    """Set view of the edges, restricted to defined sources."""
    n = _n_defined(deps, defined)
    return [set(deps[i]) for i in range(n)]


def reach_star(deps, src, defined=None):
    """Reflexive-transitive reachability from `src`.  Undefined nodes may be
    reached but have no successors.  Breadth first, written from the definition
    of the least set containing src and closed under the edge relation."""
    n = _n_defined(deps, defined)
    seen = {src}
    frontier = [src]
    while frontier:
        nxt = []
        for u in frontier:
            if u >= n:
                continue
            for v in deps[u]:
                if v not in seen:
                    seen.add(v)
                    nxt.append(v)
        frontier = nxt
    return seen


def transitive_closure(deps, defined=None):
    """tc[u] = {v | there is a path of length >= 1 from u to v}; Warshall on a
    boolean matrix over all mentioned nodes (defined or not)."""
    n = _n_defined(deps, defined)
    m = n
    for i in range(n):
        for v in deps[i]:
            if v + 1 > m:
                m = v + 1
    mat = [[False] * m for _ in range(m)]
    for i in range(n):
        for v in deps[i]:
            mat[i][v] = True
    for k in range(m):
        rk = mat[k]
        for i in range(m):
            if mat[i][k]:
                ri = mat[i]
                for j in range(m):
                    if rk[j]:
                        ri[j] = True
    return [set(j for j in range(m) if mat[i][j]) for i in range(m)]


def has_cycle(deps, defined=None):
    tc = transitive_closure(deps, defined)
    return any(i in tc[i] for i in range(len(tc)))


def cycle_reachable_from(deps, root, defined=None, tc=None):
    """A cycle is reachable from root: some v in reach*(root) lies on a cycle
    (v ->+ v)."""
    if tc is None:
        tc = transitive_closure(deps, defined)
    return any(v < len(tc) and v in tc[v] for v in reach_star(deps, root, defined))


def undefined_reachable_from(deps, root, defined=None):
    n = _n_defined(deps, defined)
    return any(v >= n for v in reach_star(deps, root, defined))


def roots(deps, defined=None):
    """Defined nodes that no defined node lists as a dependency."""
    n = _n_defined(deps, defined)
    has_parent = set()
    for i in range(n):
        has_parent.update(deps[i])
    return {i for i in range(n) if i not in has_parent}


def parents_within(deps, members):
    """For every node: the set of nodes of `members` that list it."""
    par = {}
    for u in members:
        if u < len(deps):
            for v in deps[u]:
                par.setdefault(v, set()).add(u)
    return par


def shared_after_sibling(deps, members=None):
    """True iff some node p (of `members`) lists s before d and d is reachable
    from s: the shared dependency d is listed after a sibling that also needs
    it.  Pure structural property of the input."""
    n = len(deps)
    members = set(range(n)) if members is None else members
    tc = transitive_closure(deps)
    for p in members:
        if p >= n:
            continue
        lst = deps[p]
        for a in range(len(lst)):
            for b in range(a + 1, len(lst)):
                s, d = lst[a], lst[b]
                if s < len(tc) and d in tc[s]:
                    return True
    return False


def shared_before_sibling(deps, members=None):
    n = len(deps)
    members = set(range(n)) if members is None else members
    tc = transitive_closure(deps)
    for p in members:
        if p >= n:
            continue
        lst = deps[p]
        for a in range(len(lst)):
            for b in range(a + 1, len(lst)):
                d, s = lst[a], lst[b]
                if s < len(tc) and d in tc[s]:
                    return True
    return False


def has_shared_dependency(deps, members=None):
    n = len(deps)
    members = set(range(n)) if members is None else members
    par = parents_within(deps, members)
    return any(len(ps) >= 2 for v, ps in par.items() if v in members)


def structural_class(deps, members=None):
    """Stable name for the *kind* of graph (used as failure `class`)."""
    if shared_after_sibling(deps, members):
        return "shared-dependency-listed-after-sibling"
    if has_shared_dependency(deps, members):
        return "shared-dependency"
    return "tree-shaped-closure"


def n_edges(deps):
    return sum(len(d) for d in deps)


# --------------------------------------------------------------------------
# tallies (per check, mergeable across shards)
# --------------------------------------------------------------------------

_KEEP = 5


class Tally:
    """Counts for a set of checks.  Failures are kept so that (a) the smallest
    failure of every class survives and (b) the rest is filled smallest first."""

    def __init__(self, names):
        self.c = {
            n: {"ev": 0, "nt": 0, "nf": 0, "by_class": {}, "cls_n": {}, "samples": []}
            for n in names
        }

    def ev(self, name, nontrivial):
        c = self.c[name]
        c["ev"] += 1
        if nontrivial:
            c["nt"] += 1

    def sample(self, name, inp, limit=3):
        s = self.c[name]["samples"]
        if len(s) < limit:
            s.append(inp)

    def fail(self, name, size_key, failure):
        c = self.c[name]
        c["nf"] += 1
        cls = failure.get("class", "unclassified")
        c["cls_n"][cls] = c["cls_n"].get(cls, 0) + 1
        lst = c["by_class"].setdefault(cls, [])
        key = (tuple(size_key), json.dumps(failure["input"], sort_keys=True, default=str))
        lst.append((key, failure))
        if len(lst) > _KEEP * 4:
            lst.sort(key=lambda kv: kv[0])
            del lst[_KEEP:]

    def merge(self, other):
        for n, oc in other.c.items():
            c = self.c[n]
            c["ev"] += oc["ev"]
            c["nt"] += oc["nt"]
            c["nf"] += oc["nf"]
            for cls, k in oc["cls_n"].items():
                c["cls_n"][cls] = c["cls_n"].get(cls, 0) + k
            for cls, lst in oc["by_class"].items():
                mine = c["by_class"].setdefault(cls, [])
                mine.extend(lst)
                mine.sort(key=lambda kv: kv[0])
                del mine[_KEEP:]
            for s in oc["samples"]:
                if len(c["samples"]) < 3 and s not in c["samples"]:
                    c["samples"].append(s)
        return self

    def failures(self, name):
        """<= 5 failures: smallest of each class first, then smallest overall."""
        c = self.c[name]
        for lst in c["by_class"].values():
            lst.sort(key=lambda kv: kv[0])
        firsts = sorted((lst[0] for lst in c["by_class"].values() if lst), key=lambda kv: kv[0])
        chosen = firsts[:_KEEP]
        rest = sorted(
            (kv for lst in c["by_class"].values() for kv in lst[1:]), key=lambda kv: kv[0]
        )
        chosen.extend(rest[: _KEEP - len(chosen)])
        chosen.sort(key=lambda kv: kv[0])
        out = []
        for _, f in chosen:
            f = dict(f)
            f["class_count"] = c["cls_n"].get(f.get("class", "unclassified"), 0)
            out.append(f)
        return out

    def get(self, name):
        return self.c[name]


# --------------------------------------------------------------------------
# builders of real conductor objects (imports are lazy: the tree may change)
# --------------------------------------------------------------------------

KIND_NAMES = {
    "c": "run_command",
    "e": "run_experiment",  # no recorded version
    "E": "run_experiment",  # has recorded version(s)
    "g": "group",
    "m": "combine",
}

COND = pathlib.Path("COND")


def task_name(i):
    return "t%d" % i


def task_id_str(i):
    return "//:t%d" % i


def make_raw_task(kind, name, dep_strs, cond_file_abs, **extra):
    """A raw task dict exactly as `TaskLoader` stores it: the result of the real
    `RawTaskType.load_from_cond_file(**kwargs)` plus "cond_file_path"."""
    from conductor.task_types import raw_task_types

    kwargs = {"name": name, "deps": list(dep_strs)}
    if kind in ("run_command", "run_experiment"):
        kwargs["run"] = "true"
    kwargs.update(extra)
    raw = raw_task_types[kind].load_from_cond_file(**kwargs)
    raw["cond_file_path"] = cond_file_abs
    return raw


def raw_tasks_for(deps, kinds, project_root, defined=None, spell=None):
    """{COND: {name: raw}} for nodes 0..defined-1.  kinds: string of KIND_NAMES
    keys (or full kind names).  spell(i, j) -> dependency string (default ":tj")."""
    n = _n_defined(deps, defined)
    cond_abs = pathlib.Path(project_root, "COND")
    tasks = {}
    for i in range(n):
        kind = KIND_NAMES.get(kinds[i], kinds[i])
        dep_strs = [(spell(i, j) if spell else ":" + task_name(j)) for j in deps[i]]
        tasks[task_name(i)] = make_raw_task(kind, task_name(i), dep_strs, cond_abs)
    return {COND: tasks}


class IndexFactory:
    """Builds real `TaskIndex` objects quickly.  One real `TaskIndex(project_root)`
    is constructed (its constructor compiles the COND standard library, ~1 ms);
    every further index is a shallow copy of it whose mutable containers are
    replaced by fresh empty ones and whose `_loaded_raw_tasks` is pre-populated,
    so no COND file is ever parsed."""

    def __init__(self, project_root):
        from conductor.parsing.task_index import TaskIndex

        self.project_root = pathlib.Path(project_root)
        self._template = TaskIndex(self.project_root)
        if not hasattr(self._template, "_loaded_raw_tasks"):
            raise HarnessError("TaskIndex has no _loaded_raw_tasks: cannot pre-populate")

    def make(self, raw_by_file):
        ti = copy.copy(self._template)
        for k, v in list(vars(ti).items()):
            # the template is never used itself, so scalars keep their initial
            # values; containers must not be shared between copies
            if isinstance(v, (dict, set, list)):
                setattr(ti, k, type(v)())
        ti._loaded_raw_tasks = {(p if isinstance(p, pathlib.Path) else pathlib.Path(p)): dict(ts)
                                for p, ts in raw_by_file.items()}
        return ti


class VersionIndexFactory:
    """Real in-memory `VersionIndex` objects (sqlite `:memory:`), one connection
    per process; `fresh()` rolls back to the empty committed table."""

    def __init__(self):
        import sqlite3
        import conductor.execution.version_index_queries as q

        self._conn = sqlite3.connect(":memory:")
        self._conn.execute(q.set_format_version.format(version=2))
        self._conn.execute(q.create_table)
        self._conn.commit()

    def fresh(self, recorded=()):
        """recorded: iterable of (task identifier object, timestamp)."""
        from conductor.execution.version_index import VersionIndex, Version

        self._conn.rollback()
        last = 0
        vi = VersionIndex(self._conn, 0, pathlib.Path(":memory:"))
        for ident, ts in recorded:
            vi.insert_output_version(ident, Version(ts, None, False))
            last = max(last, ts)
        vi._last_timestamp = last  # what create_or_load restores: MAX(timestamp)
        return vi

    def close(self):
        self._conn.close()


class _NoGit:
    """`uses_git` is False, so nothing may ask git anything."""

    def __getattr__(self, name):
        raise HarnessError("stub git was used (%s) although uses_git is False" % name)


class StubContext:
    """The attributes of `conductor.context.Context` that planner / traverse /
    task types read.  Real objects where cheap; anything else is a harness error
    (never silently None)."""

    def __init__(self, project_root, task_index, version_index=None):
        from conductor.config import OUTPUT_DIR

        self.project_root = pathlib.Path(project_root)
        self.output_path = self.project_root / OUTPUT_DIR
        self.task_index = task_index
        self._version_index = version_index
        self.uses_git = False
        self.current_commit = None
        self.git = _NoGit()
        self.envs = None

    @property
    def version_index(self):
        if self._version_index is None:
            raise HarnessError("stub context has no version index")
        return self._version_index

    def __getattr__(self, name):
        raise HarnessError("stub context lacks attribute %r" % name)


def ident(i_or_str):
    from conductor.task_identifier import TaskIdentifier

    if isinstance(i_or_str, int):
        i_or_str = task_id_str(i_or_str)
    return TaskIdentifier.from_str(i_or_str)


def graph_json(deps, kinds=None, defined=None, extra=None):
    n = _n_defined(deps, defined)
    tasks = {}
    for i in range(n):
        t = {"deps": [":" + task_name(j) for j in deps[i]]}
        if kinds is not None:
            t["kind"] = KIND_NAMES.get(kinds[i], kinds[i])
            if kinds[i] == "E":
                t["recorded_versions"] = True
        tasks[task_name(i)] = t
    out = {"tasks": tasks}
    if extra:
        out.update(extra)
    return out


def merge_tallies(tallies, names):
    total = Tally(names)
    for t in tallies:
        total.merge(t)
    return total
