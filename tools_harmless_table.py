#!/usr/bin/env python3
"""harmless/*/result.json -> the table of DESIGN.md section 11.12 (between the HARMLESS-TABLE markers)."""
import glob
import json
import os
import re

HERE = os.path.dirname(os.path.abspath(__file__))
rows = []
tot = {"runs": 0, "exit0": 0, "exit2": 0, "exit3": 0, "violation": 0}
for d in sorted(glob.glob(os.path.join(HERE, "harmless", "w*_h*"))):
    name = os.path.basename(d)
    meta = json.load(open(os.path.join(d, "meta.json")))
    rp = os.path.join(d, "result.json")
    if not os.path.exists(rp):
        continue
    res = json.load(open(rp))
    cells = []
    for c, r in sorted(res.get("checks", {}).items()):
        tot["runs"] += 1
        nv = len(r.get("violation_lines", []))
        if nv:
            tot["violation"] += 1
        key = "exit%d" % r["exit"]
        if key in tot:
            tot[key] += 1
        cells.append("%s: exit %d%s" % (c, r["exit"], (" (**%d VIOLATION lines**)" % nv) if nv else ""))
    fns = ", ".join("`%s`" % re.sub(r"\s*\(.*\)$", "", f) for f in meta.get("functions", [])[:3])
    rows.append("| %s | %s | %s | %s | %s |" % (name, fns, (meta.get("kind") or "")[:70].replace("|", "/"), "pass" if res.get("baseline_tests_exit") == 0 else "FAIL", "; ".join(cells)))
table = ["| change | functions | kind | repository tests | checks run on the changed tree |", "|---|---|---|---|---|"] + rows
table.append("")
table.append("Totals: %(runs)d check runs: %(exit0)d exit 0, %(exit2)d exit 2 (undecided), %(exit3)d exit 3 (checker error), %(violation)d with a VIOLATION line." % tot)
text = "\n".join(table)
p = os.path.join(HERE, "DESIGN.md")
s = open(p).read()
b, e = "<!-- HARMLESS-TABLE-BEGIN -->", "<!-- HARMLESS-TABLE-END -->"
if b in s and e in s:
    s = s[:s.index(b) + len(b)] + "\n" + text + "\n" + s[s.index(e):]
    open(p, "w").write(s)
print(text)
